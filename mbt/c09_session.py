"""C09, session part.  Spec: spec/IonSession.tla - sequences of entry-point calls sharing the caller's profile arrays.

(R) every call sequence TLC generates is run against the real functions with one set of caller-owned ndarrays reused by
    all calls; after each call the arrays must be bit-for-bit what the caller created, and the result must equal the
    result of the same call made on its own with fresh inputs, point by point (and hence agree across representations)."""
import json

from . import core

PROFILES = {
    "distinct": ([3.0e19, 1.5e19, 6.0e19], [120.0, 35.0, 410.0], [1.5e19, 3.0e18, 1.2e20], [2.5e17, 1.0e17, 4.0e17]),
    # points 0 and 2 share (n_e, T_e, n_D) and differ in the density of the other species only
    "repeated_plasma": ([3.0e19, 1.5e19, 3.0e19], [120.0, 35.0, 120.0], [1.5e19, 3.0e18, 1.5e19], [2.5e17, 1.0e17, 9.0e17]),
}
NE, TE, ND, NEL = PROFILES["distinct"]
UNIT = 1e-14


def _mock(which=1):
    from cherab.core.atomic import AtomicData
    from cherab.core.atomic import rates as R

    def mk(base, fn):
        class C(base):
            def __init__(self): pass
            def evaluate(self, ne, te): return fn(ne, te)
        return C()

    class A(AtomicData):
        # rates vary with temperature and density so that every profile point has its own balance;
        # like OpenADAS, every request is answered from what the provider serves at that moment (self.tables)
        tables = which

        def ionisation_rate(self, ion, charge):
            which = self.tables
            return mk(R.IonisationRate, lambda ne, te: which * (1 + (charge + ion.atomic_number) % 3) * UNIT * (te / 100.0) ** 0.5)
        def recombination_rate(self, ion, charge):
            return mk(R.RecombinationRate, lambda ne, te: (1 + (2 * charge + ion.atomic_number) % 3) * UNIT * (100.0 / te) ** 0.5 * (1 + ne / 1e20))
        def thermal_cx_rate(self, de, dq, re, rq):
            which = self.tables
            return mk(R.ThermalCXRate, lambda ne, te: (2 + (rq * rq) % 3 + 3 * (which - 1)) * UNIT)
    return A()


def _call(IB, E, ad, c, ne, te, nd, nel, fv=None):
    el = getattr(E, c["element"])
    kw = dict(tcx_donor=E.hydrogen, tcx_donor_n=nd, tcx_donor_charge=0) if c["donor"] == "shared" else {}
    if fv is not None:
        kw["free_variable"] = fv
    if c["entry"] == "fractional_abundance":
        return IB.fractional_abundance(ad, el, ne, te, **kw)
    if c["entry"] == "from_elementdensity":
        return IB.from_elementdensity(ad, el, nel, ne, te, **kw)
    other = IB.from_elementdensity(ad, E.lithium, nel, ne, te, **({"free_variable": fv} if fv is not None else {}))
    return IB.match_plasma_neutrality(ad, el, [other], ne, te, **kw)


def _front(IB, E, ad, c, fr, fv, ne, te, nd, nel, eq=None):
    """the interpolator builders / equilibrium-mapped variants; -> {charge: callable}"""
    el = getattr(E, c["element"])
    kw = dict(tcx_donor=E.hydrogen, tcx_donor_n=nd, tcx_donor_charge=0) if c["donor"] == "shared" else {}
    dim = "1d" if fr != "interpolators2d" else "2d"
    if fr == "equilibrium_map3d":
        if c["entry"] == "fractional_abundance":
            return IB.equilibrium_map3d_fractional(ad, el, eq, fv, ne, te, **kw)
        if c["entry"] == "from_elementdensity":
            return IB.equilibrium_map3d_from_elementdensity(ad, el, eq, fv, nel, ne, te, **kw)
        other = IB.from_elementdensity(ad, E.lithium, nel, ne, te, free_variable=fv)
        return IB.equilibrium_map3d_match_plasma_neutrality(ad, el, eq, fv, [other], ne, te, **kw)
    if c["entry"] == "fractional_abundance":
        return getattr(IB, f"interpolators{dim}_fractional")(ad, el, fv, ne, te, **kw)
    if c["entry"] == "from_elementdensity":
        return getattr(IB, f"interpolators{dim}_from_elementdensity")(ad, el, fv, nel, ne, te, **kw)
    other = getattr(IB, f"interpolators{dim}_from_elementdensity")(ad, E.lithium, fv, nel, ne, te)
    return getattr(IB, f"interpolators{dim}_match_plasma_neutrality")(ad, el, fv, [other], ne, te, **kw)


def _vec(res, i):
    import numpy as np
    return [float(np.asarray(res[z]).ravel()[i]) if np.ndim(res[z]) else float(res[z]) for z in sorted(res)]


def replay(rec, ctx):
    import numpy as np
    from raysect.core.math.function.float import Interpolator1DArray, Interpolator2DArray
    from cherab.core.atomic import elements as E
    from cherab.tools.plasmas import ionisation_balance as IB
    providers = {1: _mock(1), 2: _mock(2)}
    calls = rec["calls"]
    NE, TE, ND, NEL = PROFILES[rec.get("profile", "distinct")]
    # the caller's profile arrays, created once and handed to every call
    ne, te, nd, nel = np.array(NE), np.array(TE), np.array(ND), np.array(NEL)
    fv = np.array([0.0, 1.0, 2.0])
    f1 = [Interpolator1DArray(fv, np.array(a), "linear", "none", 0.0) for a in (NE, TE, ND, NEL)]
    # 2-D profiles on a 3 x 2 lattice: the second coordinate scales every profile by 1 / 1.25
    fv2 = (np.array([0.0, 1.0, 2.0]), np.array([0.0, 1.0]))
    SC = (1.0, 1.25)
    f2 = [Interpolator2DArray(fv2[0], fv2[1], np.array([[x * q for q in SC] for x in a]), "linear", "none", 0.0, 0.0) for a in (NE, TE, ND, NEL)]
    # equilibrium-mapped: profiles over normalised flux; (4,0,0), (5,0,0), (6,0,0) lie on psi_n = 0, 1/5, 4/5 of the synthetic equilibrium
    psin = np.array([0.0, 0.2, 0.8])
    fp = [Interpolator1DArray(psin, np.array(a), "linear", "none", 0.0) for a in (NE, TE, ND, NEL)]
    eqpts = [(4.0, 0.0, 0.0), (5.0, 0.0, 0.0), (6.0, 0.0, 0.0)]
    viol = []
    for i, c in enumerate(calls):
        fr = c.get("front", "direct")
        ad = providers[c.get("provider", 1)]
        if c["entry"] == "repository_update":
            ad.tables = c["tables"]
            continue
        reference = _mock(c.get("tables", c.get("provider", 1)))       # a provider created afresh, serving the same tables
        name = f"{'' if fr == 'direct' else fr + '_'}{c['entry']}[{c['rep']},{'donor' if c['donor'] == 'shared' else 'no-donor'}]"
        scale2 = None
        prev = " after " + ", ".join(f"{x['entry']}[{x['rep']}]" for x in calls[:i]) if i else ""

        def bad(what, detail):
            viol.append({"sig": f"session:{name}:{what}", "detail": f"{detail} | profiles {rec.get('profile')} | call {i + 1} of {json.dumps(calls)[:400]}"})
        try:
            if fr == "interpolators1d":
                res = _front(IB, E, ad, c, fr, fv, f1[0], f1[1], f1[2], f1[3])
                got = [[float(res[z](float(fv[k]))) for z in sorted(res)] for k in range(3)]
            elif fr == "interpolators2d":
                res = _front(IB, E, ad, c, fr, fv2, f2[0], f2[1], f2[2], f2[3])
                got = [[float(res[z](float(fv2[0][k]), 1.0)) for z in sorted(res)] for k in range(3)]
                scale2 = SC[1]
            elif fr == "equilibrium_map3d":
                from . import c12
                res = _front(IB, E, ad, c, fr, psin, fp[0], fp[1], fp[2], fp[3], eq=c12.equilibrium(False, 1, 1))
                got = [[float(res[z](*eqpts[k])) for z in sorted(res)] for k in range(3)]
            elif c["rep"] == "function2d":
                res = _call(IB, E, ad, c, f2[0], f2[1], f2[2], f2[3], fv=fv2)
                got = [[float(np.asarray(res[z])[k, 1]) for z in sorted(res)] for k in range(3)]
                scale2 = SC[1]
            elif c["rep"] == "function1d_int":
                res = _call(IB, E, ad, c, f1[0], f1[1], f1[2], f1[3], fv=np.arange(3))
                got = [_vec(res, k) for k in range(3)]
            elif c["rep"] == "ndarray":
                got = [_vec(_call(IB, E, ad, c, ne, te, nd, nel), k) for k in range(3)]
            elif c["rep"] == "function1d":
                res = _call(IB, E, ad, c, f1[0], f1[1], f1[2], f1[3], fv=fv)
                got = [_vec(res, k) for k in range(3)]
            else:
                got = [_vec(_call(IB, E, ad, c, NE[k], TE[k], ND[k], NEL[k]), 0) for k in range(3)]
        except Exception as ex:          # noqa: BLE001
            bad(f"raised-{type(ex).__name__}", repr(ex)[:200] + prev)
            break
        for nm, arr, orig in (("n_e", ne, NE), ("t_e", te, TE), ("tcx_donor_n", nd, ND), ("element density", nel, NEL)):
            if arr.tolist() != orig:
                bad("modifies-the-callers-array", f"{nm}: {arr.tolist()} vs {orig}")
        # the same call on its own, fresh scalar inputs point by point
        q = scale2 or 1.0
        ref = [_vec(_call(IB, E, reference, c, NE[k] * q, TE[k] * q, ND[k] * q, NEL[k] * q), 0) for k in range(3)]
        scale = 1.0 if c["entry"] == "fractional_abundance" else max(max(r) for r in ref)
        if any(abs(a - b) > 1e-7 * scale for g, r in zip(got, ref) for a, b in zip(g, r)):
            bad("result-depends-on-earlier-calls-or-representation", f"{got} vs the same call on fresh scalar inputs {ref}{prev}")
        if viol:
            break
    return viol


CFG = """SPECIFICATION Spec
CONSTANTS
  MaxHist = {depth}
INVARIANT InputsUntouched
ACTION_CONSTRAINT Emit
"""


def run_part(v):
    depth = 2 if v.tier == "quick" else 3
    res = core.run_tlc("IonSession", CFG.format(depth=depth), workers=1, seed=v.seed, timeout=1800, tag="C09-session")
    core.tlc_must_pass(res, "IonSession")
    v.add_tlc(res, "IonSession")
    seqs = [r for r in res.records if "calls" in r and len(r["calls"]) == depth]
    cap = 6000 if v.tier == "quick" else 30000
    if len(seqs) > cap:
        import random
        seqs = random.Random(v.seed).sample(seqs, cap)
    res2 = core.run_tlc("IonSession", CFG.format(depth=3).replace("SPECIFICATION Spec", "SPECIFICATION UCUSpec"), workers=1, seed=v.seed, timeout=1800, tag="C09-session-ucu")
    core.tlc_must_pass(res2, "IonSession/UCU")
    v.add_tlc(res2, "IonSession/call-update-call")
    ucu = [r for r in res2.records if "calls" in r and len(r["calls"]) == 3]
    if len(ucu) < 50:
        raise core.MachineryError("vacuity: call-update-call sequences missing")
    seqs = seqs + ucu
    fronts = {}
    for r in seqs:
        for c in r["calls"]:
            if c["entry"] != "repository_update":
                fronts[c["front"]] = fronts.get(c["front"], 0) + 1
    if len(seqs) < 300 or set(fronts) != {"direct", "interpolators1d", "interpolators2d", "equilibrium_map3d"}:
        raise core.MachineryError(f"vacuity: too few call sequences / front-ends missing {fronts}")
    v.notes["session_calls_per_front_end"] = fronts
    out = core.fan_out("mbt.c09_session", "replay", seqs, None)
    for r, vs in zip(seqs, out):
        for x in vs:
            v.violation(x["sig"], x["detail"], dict(r, part="session"))
    v.add_cases(len(seqs), keys=[json.dumps([r["profile"], r["calls"]]) for r in seqs])
    v.notes["session_call_sequences"] = len(seqs)


def selftest():
    c = [{"entry": "fractional_abundance", "element": "helium", "rep": "ndarray", "donor": "shared"}]
    good = replay({"calls": c}, None)
    # binding: if the reference inputs differ from what the call was given, the comparison must notice
    import numpy as np
    from cherab.tools.plasmas import ionisation_balance as IB
    orig = IB.fractional_abundance

    def tampering(ad, el, ne, te, **kw):
        if isinstance(kw.get("tcx_donor_n"), np.ndarray):
            kw["tcx_donor_n"] *= 0.5
        return orig(ad, el, ne, te, **kw)
    IB.fractional_abundance = tampering
    try:
        bad = replay({"calls": c}, None)
    finally:
        IB.fractional_abundance = orig
    return not good and bool(bad)
