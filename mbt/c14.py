"""C14 - caching functions.  Spec: spec/Caching.tla.

(R) every evaluation order TLC explores is replayed on Caching1D/2D/3D wrapping a recording polynomial:
    per evaluation the nodes the wrapped function is asked for (and their order) must be exactly the
    spec's; the value must equal the spec's exact Hermite interpolant (1-D) and be the same as on a fresh
    instance that evaluates only this point (history independence); outside the area ValueError or a
    direct call; function_boundaries and no_boundary_error variants give the same values.
"""
import itertools
import json

from . import core

H = (1.0, 0.5, 0.25)          # resolution per axis (Caching.tla: Spacing / 4)
ORIGINS = {"origin": (0.0, 0.0, 0.0), "offset": (-3.75, 2.5, 100.0), "fine": (8.0, 8.0, 4.0), "uneven": (1.0, -2.0, 0.5)}      # Caching.tla: Origins / 4
EXTRA = {"uneven": (0, 1, 3)}        # Caching.tla: ExtraCells (cells per axis beyond n)
BOUNDS = {"wide": (-7.0, 13.0), "exceeded": (0.5, 1.0), "degenerate": (2.0, 2.0)}        # Caching.tla: Bounds / 4


def _btag(fb):
    if not fb:
        return ""
    name = [k for k, b in BOUNDS.items() if b == tuple(fb)]
    return "[bounds]" if not name or name[0] == "wide" else f"[bounds-{name[0]}]"
SPACING = {"fine": (0.005, 0.005, 0.005)}       # the "fine" lattice: 5 mm cells eight metres from the origin (a large tokamak); others use H
POLYS = [(2, -3, 1, 1), (5, 2, 0, 0), (1, 0, -2, 0), (-4, 1, 3, -1)]


class F:
    """recording wrapped function; separable polynomial so that it is multilinear when the 1-D polynomial is linear"""
    def __init__(self, poly, dim, place="origin"):
        self.p, self.dim, self.calls, self.x0 = poly, dim, [], ORIGINS[place]

    def f1(self, x, k=0):
        a = self.p
        x = x - self.x0[k]            # the polynomial is a function of the distance from the area's corner
        return a[0] + a[1] * x + a[2] * x * x + a[3] * x * x * x + 0.25 * k

    def __call__(self, *a):
        self.calls.append(tuple(float(x) for x in a))
        v = 1.0
        for k, x in enumerate(a):
            v *= self.f1(x, k)
        return v


def make(dim, n, poly, nbe, fb, place="origin"):
    from cherab.core.math import Caching1D, Caching2D, Caching3D
    f = F(poly, dim, place)
    X0 = ORIGINS[place]
    h = SPACING.get(place, H)
    ex = EXTRA.get(place, (0, 0, 0))
    area = tuple(x for k in range(dim) for x in (X0[k], X0[k] + (n + ex[k]) * h[k]))
    res = h[0] if dim == 1 else tuple(h[k] for k in range(dim))
    cls = {1: Caching1D, 2: Caching2D, 3: Caching3D}[dim]
    return cls(f, area, res, no_boundary_error=nbe, function_boundaries=fb), f


def replay(rec, ctx):
    cx = ctx or rec
    dim, n, poly = cx["dim"], cx["n"], POLYS[cx["poly"] - 1]
    viol = []
    protocol = []
    for place, nbe, fb in (("origin", False, None), ("origin", True, BOUNDS["wide"]), ("offset", False, None), ("origin", False, BOUNDS["degenerate"]), ("origin", False, BOUNDS["exceeded"])):
        X0 = ORIGINS[place]
        cache, f = make(dim, n, poly, nbe, fb, place)
        tag = f"Caching{dim}D" + _btag(fb) + ("@offset" if place != "origin" else "")

        def bad(what, detail):
            viol.append({"sig": f"{tag}:{what}", "detail": f"{detail} | history {json.dumps(rec['h'])[:300]}"})
        seen, seen_before = set(), set()
        for i, e in enumerate(rec["h"]):
            f.calls.clear()
            if e["op"] == "outside":
                pt = tuple(X0[k] + (-0.5 if e["side"] == "below" else n + 0.5) * H[k] for k in range(dim))
                try:
                    val = cache(*pt)
                    if not nbe:
                        bad("outside-area-no-error", f"returned {val}")
                    elif f.calls != [pt] or val != F(poly, dim, place)(*pt):
                        bad("outside-area-not-direct-evaluation", f"calls {f.calls}, value {val}")
                except ValueError:
                    if nbe:
                        bad("outside-area-raised-despite-no_boundary_error", "")
                continue
            pt = tuple(X0[k] + (c + q / 4.0) * H[k] for k, (c, q) in enumerate(zip(e["c"], e["q"])))
            try:
                val = cache(*pt)
            except Exception as ex:      # noqa: BLE001
                bad(f"raised-{type(ex).__name__}", repr(ex)[:200])
                break
            asked = [tuple(int(round((x - X0[k]) / H[k])) for k, x in enumerate(call)) for call in f.calls]
            off = max([abs((x - X0[k]) / H[k] - round((x - X0[k]) / H[k])) for call in f.calls for k, x in enumerate(call)] or [0.0])
            want = [tuple(a) for a in e["asks"]]
            # the sampling nodes are the lattice of the requested resolution: the nodes the specification says this evaluation
            # needs must be asked for, and nothing but lattice nodes of its stencil (asked now or earlier); the order in which they
            # are asked, and asking an already sampled node again, is the implementation's business (recorded only)
            seen |= set(asked)
            if not (set(want) <= set(asked) and set(asked) <= set(want) | seen_before) or off > 1e-6:
                bad("sampling-nodes-differ", f"evaluation {i} at {pt}: asked nodes {asked[:8]}.. spec {want[:8]}.. (max node offset {off:.1e})")
                break
            seen_before = set(seen)
            if asked != want:
                protocol.append((tag, f"evaluation {i} at {pt}: asked {asked[:8]}.. spec order {want[:8]}.."))
            if dim == 1:
                exact = e["value128"] / 128.0
                if abs(val - exact) > 2e-5 * max(1.0, abs(exact)):
                    bad("value-differs-from-hermite-interpolant", f"f_cached({pt[0]}) = {val!r}, spec {exact!r}")
            fresh, _ = make(dim, n, poly, nbe, fb, place)
            vf = fresh(*pt)
            if not core.close(val, vf, rtol=1e-12, atol=1e-12):
                bad("value-depends-on-history", f"at {pt}: {val!r} after this history, {vf!r} on a fresh instance")
            plain, _ = make(dim, n, poly, False, None, place)
            vp = plain(*pt)
            if not core.close(val, vp, rtol=1e-9, atol=1e-9):
                bad("value-depends-on-function_boundaries", f"at {pt}: {val!r} vs {vp!r} without bounds")
    if protocol:
        if viol:
            viol.append({"sig": f"{protocol[0][0]}:sampling-order-differs", "detail": protocol[0][1]})
        else:
            return [{"observation": f"{protocol[0][0]}:sampling-order-differs"}]
    return viol


def identities(dim, n):
    """node exactness and multilinear exactness on fresh instances (whole area sweep)."""
    out = []
    lin = POLYS[1]
    for place, fb in (("origin", None), ("origin", (-50.0, 300.0)), ("offset", None), ("fine", None), ("uneven", None), ("uneven", (-50.0, 300.0)),
                      ("origin", BOUNDS["degenerate"]), ("uneven", BOUNDS["exceeded"])):
        X0 = ORIGINS[place]
        H = SPACING.get(place, globals()["H"])
        ex = EXTRA.get(place, (0, 0, 0))
        at = "@" + place if place != "origin" else ""
        cache, f = make(dim, n, lin, False, fb, place)
        ref = F(lin, dim, place)
        pts = list(itertools.product(*[[X0[ax] + (0.37 + k) * H[ax] for k in range(n + ex[ax])] + [X0[ax] + (n + ex[ax] - 0.01) * H[ax], X0[ax] + 0.02 * H[ax]] for ax in range(dim)]))
        # exactness up to rounding: 1e-9 on the lattice at the origin, 1e-7 on the displaced ones (the nodes are shifted by 1e-7)
        tol = 1e-9 if place == "origin" else 1e-7
        for pt in pts[:400]:
            v, w = cache(*pt), ref(*pt)
            if abs(v - w) > tol * max(1.0, abs(w)):
                out.append({"sig": f"Caching{dim}D{_btag(fb) if fb in BOUNDS.values() else ('[bounds]' if fb else '')}{at}:multilinear-function-not-reproduced", "detail": f"at {pt}: {v!r} vs {w!r}"})
                break
        cub = POLYS[0]
        cache, f = make(dim, n, cub, False, fb, place)
        ref = F(cub, dim, place)
        cache(*[X0[ax] + (n / 2.0 + 0.3) * H[ax] for ax in range(dim)])
        nodes = [c for c in f.calls if all(X0[ax] <= x <= X0[ax] + (n + ex[ax]) * H[ax] for ax, x in enumerate(c))]
        for nd in nodes[:30]:
            v, w = cache(*nd), ref(*nd)
            if abs(v - w) > tol * max(1.0, abs(w)):
                out.append({"sig": f"Caching{dim}D{_btag(fb) if fb in BOUNDS.values() else ('[bounds]' if fb else '')}{at}:not-exact-at-sampling-node", "detail": f"node {nd}: {v!r} vs {w!r}"})
                break
        # a smooth function of unit curvature: the error must stay below the h^2 bound of the cubic interpolant
        # ((5/32) h^2 max|f''| per axis; 3 h^2 is a generous envelope for every dimension)
        import math
        from cherab.core.math import Caching1D, Caching2D, Caching3D

        def smooth(*a):
            x = a + (0.0, 0.0)
            return math.sin(x[0]) * math.cos(0.7 * x[1]) + 0.3 * x[2] * x[2]
        area = tuple(x for k in range(dim) for x in (X0[k], X0[k] + (n + ex[k]) * H[k]))
        cs = {1: Caching1D, 2: Caching2D, 3: Caching3D}[dim](smooth, area, H[0] if dim == 1 else tuple(H[:dim]))
        bound = 3.0 * max(H[:dim]) ** 2 + 1e-9
        for pt in pts[:200]:
            v, w = cs(*pt), smooth(*pt)
            if abs(v - w) > bound:
                out.append({"sig": f"Caching{dim}D{at}:error-exceeds-curvature-bound", "detail": f"at {pt}: {v!r} vs {w!r}, bound {bound:.2e} for resolution {H[:dim]}"})
                break
    return out


def lattice(cases):
    """Caching.tla LatticeCases: on every axis of every class, the requested resolution gives the spec's number of cells; the area
    is usable throughout (no point inside raises), a function linear per coordinate is reproduced, the nodes are the spec's."""
    from cherab.core.math import Caching1D, Caching2D, Caching3D
    out = []
    lin = POLYS[1]
    for dim in (1, 2, 3):
        cls = {1: Caching1D, 2: Caching2D, 3: Caching3D}[dim]
        for ax in range(dim):
            for c in cases:
                e, r, cells = c["extent"] / 4.0, c["res"] / 4.0, c["cells"]
                x0 = (-3.0, 1.5, 40.0)
                ext = [2.0] * dim
                res = [1.0] * dim
                ext[ax], res[ax] = e, r
                f = F(lin, dim, "origin")
                area = tuple(x for k in range(dim) for x in (x0[k], x0[k] + ext[k]))
                tag = f"Caching{dim}D:axis{ax}:extent{c['extent']}q-resolution{c['res']}q"
                try:
                    cache = cls(f, area, res[0] if dim == 1 else tuple(res))
                    ref = F(lin, dim, "origin")
                    worst = None
                    for t in (0.02, 0.31, 0.5, 0.77, 0.98):
                        pt = [x0[k] + 0.43 * ext[k] for k in range(dim)]
                        pt[ax] = x0[ax] + t * e
                        vv, w = cache(*pt), ref(*pt)
                        if abs(vv - w) > 1e-7 * max(1.0, abs(w)):
                            worst = (pt, vv, w)
                    if worst:
                        out.append({"sig": f"{tag}:multilinear-function-not-reproduced", "detail": f"at {worst[0]}: {worst[1]!r} vs {worst[2]!r}"})
                        continue
                    for i in range(cells):      # every cell of the axis has been touched once this loop is through
                        pt = [x0[k] + 0.43 * ext[k] for k in range(dim)]
                        pt[ax] = x0[ax] + (i + 0.5) * e / cells
                        cache(*pt)
                    inner = sorted({round(cl[ax], 5) for cl in f.calls if x0[ax] - 1e-4 <= cl[ax] <= x0[ax] + e + 1e-4})
                    want = [round(x0[ax] + i * e / cells, 5) for i in range(cells + 1)]
                    if len(inner) != len(want) or any(abs(a - b) > 2e-5 for a, b in zip(inner, want)):
                        out.append({"sig": f"{tag}:sampling-nodes-differ", "detail": f"nodes along the axis {inner}, spec lattice of {cells} cell(s) {want}"})
                except Exception as ex:       # noqa: BLE001
                    out.append({"sig": f"{tag}:raised-{type(ex).__name__}-inside-the-area", "detail": repr(ex)[:200]})
    return out


CFG = """SPECIFICATION Spec
CONSTANTS
  Dim = {dim}
  N = {n}
  MaxHist = {depth}
  PolyId = {poly}
INVARIANT AskedOnce
INVARIANT CalculatedNeedsStencil
INVARIANT ValueIsFunctionOfPoint
INVARIANT InterpolantProperties
INVARIANT InterpolantReadsItsStencil
ACTION_CONSTRAINT Emit
"""


SPEC_MUTANTS = [
    ("cell-forgets-sampled-nodes", "    /\\ sampled' = sampled \\cup new", "    /\\ sampled' = sampled"),
    ("cell-never-fixed", "    /\\ calculated' = calculated \\cup {c}", "    /\\ calculated' = calculated"),
    ("stencil-too-narrow", "St(i) == (i - 1)..(i + 2)", "St(i) == i..(i + 1)"),
    ("one-sided-slope", "H11(q) * (F(c + 2) - F(c))", "H11(q) * 2 * (F(c + 2) - F(c + 1))"),
]


def run(v):
    if v.tier == "thorough":
        from . import specmut
        v.notes["spec_mutants"] = specmut.audit("Caching", CFG.format(dim=1, n=4, depth=3, poly=1).replace("ACTION_CONSTRAINT Emit\n", ""), SPEC_MUTANTS)
    plan = {"quick": [(1, 4, 3, 1), (1, 4, 2, 2), (1, 3, 2, 4), (2, 3, 2, 1), (3, 2, 2, 1)],
            "thorough": [(1, 4, 4, 1), (1, 4, 3, 2), (1, 4, 3, 3), (1, 4, 3, 4), (2, 3, 3, 1), (2, 3, 2, 3), (3, 3, 2, 1), (3, 2, 3, 4)]}[v.tier]
    for dim, n, depth, poly in plan:
        res = core.run_tlc("Caching", CFG.format(dim=dim, n=n, depth=depth, poly=poly), workers=1, seed=v.seed, tag=f"C14-{dim}d", timeout=3000)
        core.tlc_must_pass(res, f"Caching {dim}D")
        v.add_tlc(res, f"Caching/dim{dim}-N{n}-depth{depth}-poly{poly}")
        tab = [r for r in res.records if "origins" in r][0]
        if {k: tuple(x / 4.0 for x in o) for k, o in tab["origins"].items()} != {k: o for k, o in ORIGINS.items() if k != "fine"} or \
                {k: tuple(x) for k, x in tab["extracells"].items() if any(x)} != EXTRA or tuple(x / 4.0 for x in tab["spacing"]) != H or \
                {k: tuple(x / 4.0 for x in b) for k, b in tab["bounds"].items()} != BOUNDS:
            raise core.MachineryError("placement tables of Caching.tla and mbt/c14.py differ")
        edges = [r for r in res.records if "h" in r]
        full = [r for r in edges if len(r["h"]) == depth] or edges
        if not any(e["op"] == "outside" for r in full for e in r["h"]) or not any(e["op"] == "eval" and not e["asks"] for r in full for e in r["h"]):
            raise core.MachineryError("vacuity: no outside evaluation / no cache hit in the explored histories")
        out = core.fan_out("mbt.c14", "replay", full, {"dim": dim, "n": n, "poly": poly})
        for r, vs in zip(full, out):
            for x in vs:
                if "observation" in x:
                    v.notes.setdefault("not_asserted", {})[x["observation"]] = v.notes.setdefault("not_asserted", {}).get(x["observation"], 0) + 1
                else:
                    v.violation(x["sig"], x["detail"], dict(r, dim=dim, n=n, poly=poly))
        v.add_cases(len(full), keys=[f"{dim}{n}{poly}" + json.dumps(r["h"]) for r in full])
        v.sample({"dim": dim, "cells_per_axis": n, "poly": POLYS[poly - 1], "history": [{k: x for k, x in e.items() if k != "asks"} for e in full[len(full) // 2]["h"]]})
    for x in lattice(tab["lattice"]):
        v.violation(x["sig"], x["detail"], None)
    v.add_cases(6 * len(tab["lattice"]), keys=[f"lattice{d}{a}{json.dumps(c, sort_keys=True)}" for d in (1, 2, 3) for a in range(d) for c in tab["lattice"]])
    for dim, n in ((1, 5), (2, 3), (3, 2)):
        for x in identities(dim, n):
            v.violation(x["sig"], x["detail"], None)
    v.assumptions += ["caching area [0, N] with resolution 1 per axis; the code's 1e-7 node shift bounds the agreement with the exact interpolant (2e-5)",
                      "h^2 error bound decided exactly for the integer cubic family only (TLC invariant InterpolantProperties); arbitrary C2 functions are not covered"]
    return v.finish(rule="one case = one TLC-explored evaluation order (points in cells / outside) replayed on Caching1D/2D/3D in two configurations; distinct = distinct (dimension, polynomial, history)")


def selftest():
    rec = {"h": [{"op": "eval", "c": [1], "q": [2], "asks": [[0], [1], [2], [3]], "value128": 0}], "dim": 1, "n": 4, "poly": 2}
    p = POLYS[1]
    rec["h"][0]["value128"] = int(128 * (p[0] + p[1] * 1.5))
    good = replay(rec, None)
    bad = replay({**rec, "h": [dict(rec["h"][0], value128=rec["h"][0]["value128"] + 64)]}, None)
    ok = not any("sig" in x for x in good) and any("sig" in x for x in bad)
    print("C14 selftest:", "ok" if ok else "FAILED", good[:1], bad[:1])
    return 0 if ok else 2
