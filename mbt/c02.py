"""C02 - line shapes are normalised.  Spec: spec/LineShape.tla (component shares as exact fractions).

(R/E) every configuration TLC enumerates is executed on the real line-shape object; for Gaussian-kernel models every
      bin must equal  sum_c R w_c BinAvg_gauss(centre_c, sigma)  with the spec's exact shares and the documented
      Doppler / Zeeman / Stark-splitting positions evaluated with CODATA constants; for the Stark pseudo-Voigt kernel
      the wavelength integral must equal R x total share; pi + sigma spectra must add up to the unpolarised spectrum
      bin by bin (same code both sides); a line without width adds nothing.
"""
import json
import math
from fractions import Fraction

from . import core

LAM0 = 656.1
R0 = 3.5
VEL = (2.0e4, 1.0e4, 0.0)
BMAG = 2.5
ALPHA, BETA, GAMMA = 0.04, 0.3, 0.2
MULT = (0.35,)
ZM = {"p1": -0.02, "p2": 0.02, "sp1": 0.05, "sp2": 0.08, "sm1": -0.05, "sm2": -0.08, "sm3": -0.11}
BEAM_E = 60000.0


def ne_te(rec):
    if not rec["broad"]:
        return 0.0, 0.0
    return (1e21, 5.0) if rec.get("regime") == "mixed" else (5e19, 50.0)


VIEWS = {1: (1.0, 0.0, 0.0), 2: (-1.0, 0.0, 0.0), 3: (0.0, 1.0, 0.0), 4: (1.0, 0.0, 0.0), 5: (0.0, 1.0, 0.0)}
EMITTER = {"d": ("deuterium", 0, (3, 2)), "c": ("carbon", 5, (8, 7))}


def view_of(rec):
    return VIEWS[rec.get("view", 1)]


def emitter_of(rec):
    from cherab.core.atomic import elements as E
    name, q, tr = EMITTER[rec.get("emitter", "d")]
    return getattr(E, name), q, tr


def bvec(cs, bzero, view=1):
    """field of strength BMAG at the angle class cs to the observation direction d: B = |B| (cos d + sin z^)"""
    from raysect.core import Vector3D
    if bzero:
        return Vector3D(0, 0, 0)
    co = {1: 0.0, 2: 1.0, 3: math.sqrt(0.5), 4: 0.6}[cs]
    si = math.sqrt(1.0 - co * co)
    d = VIEWS[view]
    if view == 1:
        # the original lattice vectors (exact in floating point where possible)
        v = {1: (0, 0, 1), 2: (1, 0, 0), 3: (1, 1, 0), 4: (3, 4, 0)}[cs]
        n = math.sqrt(sum(x * x for x in v))
        return Vector3D(*[x * BMAG / n for x in v])
    return Vector3D(BMAG * co * d[0], BMAG * co * d[1], BMAG * si)


def build(rec, pol=None):
    from raysect.core import Vector3D, Point3D
    from raysect.core.math.function.float import Constant1D
    from cherab.core import Plasma, Species, Beam
    from cherab.core.atomic import Line, AtomicData, deuterium
    el, q_, tr_ = emitter_of(rec)
    from cherab.core.atomic.zeeman import ZeemanStructure
    from cherab.core.distribution import Maxwellian
    from cherab.core.math import Constant3D, ConstantVector3D
    from cherab.core.model import GaussianLine, MultipletLineShape, ZeemanTriplet, ParametrisedZeemanTriplet, ZeemanMultiplet, StarkBroadenedLine
    from cherab.core.model.lineshape import BeamEmissionMultiplet
    pol = pol or rec["pol"]
    m = rec["model"]
    p = Plasma()
    p.b_field = ConstantVector3D(bvec(rec["cs"], rec["bzero"], rec.get("view", 1)))
    ne, te = ne_te(rec)
    # the plasma has these values in a small box around the point the line is evaluated at, (0.1, 0.2, 0.3), and other values
    # everywhere else: a quantity read at another point (coordinates mixed up, the beam point instead of the plasma point) shows
    from raysect.core.math.function.float.function3d.autowrap import PythonFunction3D

    def here(v, elsewhere):
        return PythonFunction3D(lambda x, y, z: v if (abs(x - 0.1) < 0.04 and abs(y - 0.2) < 0.04 and abs(z - 0.3) < 0.04) else elsewhere)
    p.electron_distribution = Maxwellian(here(ne, 3.0 * ne + 1e18), here(te, 2.0 * te + 1.0), ConstantVector3D(Vector3D(0, 0, 0)), 9.1093837015e-31)
    sp = Species(el, q_, Maxwellian(here(1e18, 3e18), here(float(rec["tsp"]), 2.0 * abs(float(rec["tsp"])) + 1.0), ConstantVector3D(Vector3D(*VEL)), el.atomic_weight * 1.66053906660e-27))
    p.composition = [sp]
    line = Line(el, q_, tr_)
    ad = AtomicData()
    if m == "gaussian":
        return GaussianLine(line, LAM0, sp, p, ad), None
    if m == "multiplet":
        return MultipletLineShape(line, LAM0, sp, p, ad, [[LAM0, LAM0 + MULT[0]], [0.75, 0.25]]), None
    if m == "zeeman_triplet":
        return ZeemanTriplet(line, LAM0, sp, p, ad, polarisation=pol), None
    if m == "param_zeeman_triplet":
        return ParametrisedZeemanTriplet(line, LAM0, sp, p, ad, (ALPHA, BETA, GAMMA), polarisation=pol), None
    if m == "zeeman_multiplet":
        # positions and ratios are functions of |B|: they answer with the spec's numbers only when asked at the field magnitude
        bm = bvec(rec["cs"], rec["bzero"], rec.get("view", 1)).length

        def fb(v):
            return lambda x: v if abs(x - bm) <= 1e-9 * max(bm, 1e-300) else 1.9 * v + 0.3
        zs = ZeemanStructure([(fb(LAM0 + ZM["p1"]), fb(1.0)), (fb(LAM0 + ZM["p2"]), fb(1.0))],
                             [(fb(LAM0 + ZM["sp1"]), fb(2.0)), (fb(LAM0 + ZM["sp2"]), fb(1.0))],
                             [(fb(LAM0 + ZM["sm1"]), fb(1.0)), (fb(LAM0 + ZM["sm2"]), fb(2.0)), (fb(LAM0 + ZM["sm3"]), fb(1.0))])
        return ZeemanMultiplet(line, LAM0, sp, p, ad, zs, polarisation=pol), None
    if m == "stark":
        return StarkBroadenedLine(line, LAM0, sp, p, ad, stark_model_coefficients=(3.71e-18, 0.7665, 0.064), polarisation=pol), None
    beam = Beam()
    beam.plasma = p
    beam.energy = BEAM_E
    beam.temperature = max(float(rec["tsp"]), 0.0)
    beam.element = deuterium
    # the ratio functions answer with the spec's ratios only at the documented arguments (n_e [, beam energy]); anywhere else
    # they return other numbers, so that an argument mix-up changes the component shares
    def at(v, *want):
        return lambda *a: v if len(a) == len(want) and all(abs(x - w) <= 1e-9 * max(abs(w), 1e-300) for x, w in zip(a, want)) else 3.7 * v + 0.1
    return BeamEmissionMultiplet(line, LAM0, beam, ad, at(0.5, ne, BEAM_E), at(0.5, ne), at(0.5, ne), at(0.25, ne)), beam


def gauss_bin(centre, sigma, lo, hi):
    s = sigma * math.sqrt(2.0)
    return 0.5 * (math.erf((hi - centre) / s) - math.erf((lo - centre) / s)) / (hi - lo)


STARK_C = (3.71e-18, 0.7665, 0.064)
STARK_NE_TE = (5e19, 50.0)
_PV_A = [1., 0.15882, 1.04388, -1.38281, 0.46251, 0.82325, -0.58026]      # FWHM_V / FWHM_G in powers of L/G (L <= G)
_PV_B = [1., 0, 0.57575, 0.37902, -0.42519, -0.31525, 0.31718]            # FWHM_V / FWHM_L in powers of G/L (L > G)
_PV_ETA = [5.14820e-04, 1.38821e+00, -9.60424e-02, -3.83995e-02, -7.40042e-03, -5.47626e-04]


def stark_params(rec):
    """documented pseudo-Voigt parameters -> (sigma of the Gaussian part, FWHM of the Lorentzian part, Lorentzian weight)"""
    c, a, b = STARK_C
    ne, te = ne_te(rec)
    fl = c * ne ** a / te ** b if ne > 0 and te > 0 else 0.0
    fg = 2 * math.sqrt(2 * math.log(2)) * sigma_of(dict(rec, model="stark"))
    if fl == 0 and fg == 0:
        return 0.0, 0.0, 0.0
    if fg <= fl:
        fv = fl * sum(k * (fg / fl) ** n for n, k in enumerate(_PV_B))
    else:
        fv = fg * sum(k * (fl / fg) ** n for n, k in enumerate(_PV_A))
    r = fl / fv
    if r < 0.01:
        return fv / (2 * math.sqrt(2 * math.log(2))), 0.0, 0.0
    if r > 0.999:
        return 0.0, fv, 1.0
    eta = math.exp(sum(k * math.log(r) ** n for n, k in enumerate(_PV_ETA)))
    return fv / (2 * math.sqrt(2 * math.log(2))), fv, eta


def lorentz_bin(centre, fwhm, lo, hi):
    """bin average of the modified Lorentzian  C / (|x - x0|^(5/2) + (fwhm/2)^(5/2)), cut at +-50 fwhm and normalised to 1 there"""
    from scipy.special import hyp2f1
    a = (0.5 * fwhm) ** 2.5

    def prim(x):            # integral from 0 to x >= 0 of dx / (x^2.5 + a)
        return x / a * hyp2f1(0.4, 1.0, 1.4, -x ** 2.5 / a)
    cut = 50.0 * fwhm
    norm = 2 * prim(cut)
    lo, hi2 = max(lo, centre - cut), min(hi, centre + cut)
    if hi2 <= lo:
        return 0.0

    def cdf(x):
        d = x - centre
        return math.copysign(prim(abs(d)), d)
    return (cdf(hi2) - cdf(lo)) / norm


def positions(rec):
    """label -> central wavelength, from the documented shift formulas with CODATA constants"""
    from scipy import constants as K
    m = rec["model"]
    vlos = rec.get("doppler_units", 2) * 1.0e4               # flow component along the observation direction (spec: DopplerUnits)
    dop = lambda lam: lam * (1.0 + vlos / K.c)               # noqa: E731
    hc = K.h * K.c / K.e * 1e9
    mub = K.physical_constants["Bohr magneton in eV/T"][0]
    pos = {"c": dop(LAM0)}
    b = 0.0 if rec["bzero"] else BMAG
    if m == "param_zeeman_triplet":
        pos["z+"], pos["z-"] = dop(LAM0 + 0.5 * ALPHA * b), dop(LAM0 - 0.5 * ALPHA * b)
    else:
        pos["z+"], pos["z-"] = dop(hc / (hc / LAM0 - mub * b)), dop(hc / (hc / LAM0 + mub * b))
    pos["m1"], pos["m2"] = dop(LAM0), dop(LAM0 + MULT[0])
    for k, d in ZM.items():
        pos[k] = dop(LAM0 + d)
    if m == "mse":
        v = math.sqrt(2 * BEAM_E * K.e / K.atomic_mass)        # beam along +z, observed along +x: no Doppler shift
        bv = bvec(rec["cs"], rec["bzero"])
        e = v * math.sqrt(bv.x ** 2 + bv.y ** 2)               # |v z^ x B|
        for k in range(-4, 5):
            pos[f"k{k:+d}" if k else "k0"] = LAM0 + k * 2.77e-8 * e
    return pos


def sigma_of(rec):
    from scipy import constants as K
    from cherab.core.atomic import deuterium
    t = float(rec["tsp"])
    if t <= 0:
        return 0.0
    s = LAM0 * math.sqrt(t * K.e / (emitter_of(rec)[0].atomic_weight * K.atomic_mass)) / K.c
    if rec["model"] == "param_zeeman_triplet":
        s *= math.sqrt(1.0 + BETA * BETA * t ** (2 * GAMMA))
    return s


def window(rec, pos, sigma):
    w = rec["window"]
    c = pos["c"]
    s = sigma or 0.03
    if w == "inside":
        return c - 3.0, c + 3.0, 600
    if w == "straddle_low":
        return c + 0.4 * s, c + 4.0, 330
    if w == "straddle_high":
        return c - 4.0, c - 0.3 * s, 310
    if w == "outside":
        return c + 50.0, c + 60.0, 40
    if w == "one_bin_partial":
        return c + 0.5 * s, c + 30.0, 1
    if w == "tail_in_first_bin":
        return c + 3.0 * s, c + 103.0 * s, 5
    if w == "tail_in_last_bin":
        return c - 103.0 * s, c - 3.0 * s, 5
    if w == "centre_on_boundary":
        return c - 32.0 * s, c + 32.0 * s, 8
    if w == "centre_near_boundary":
        return c - 19.0 * s, c + 23.0 * s, 7
    if w == "wing_over_boundary":
        return c - 42.0 * s, c + 58.0 * s, 4
    return c - 30.0, c + 31.0, 3


def run_model(rec, pol, lo, hi, bins, base=0.0):
    """what the model adds to a spectrum holding `base` in every bin (other lines were added before)"""
    from raysect.core import Point3D, Vector3D
    from raysect.optical import Spectrum
    obj, beam = build(rec, pol)
    sp = Spectrum(lo, hi, bins)
    if base:
        sp.samples[:] = base
    if beam is None:
        out = obj.add_line(R0, Point3D(0.1, 0.2, 0.3), Vector3D(*view_of(rec)) * float(rec.get("dir_length", 1)), sp)
    else:
        out = obj.add_line(R0, Point3D(0, 0, 0.5), Point3D(0.1, 0.2, 0.3), Vector3D(0, 0, 1), Vector3D(1, 0, 0), sp)
    return [float(x) - base for x in out.samples]


def replay_any(rec, ctx):
    if rec.get("part") == "quadrature":
        from . import c02_quad
        return c02_quad.replay(rec, ctx)
    return replay(rec, ctx)


def replay(rec, ctx):
    viol = []
    m = rec["model"]
    tag = f"{m}:{rec['pol']}"

    def bad(what, detail):
        viol.append({"sig": f"{tag}:{what}", "detail": f"{detail} | cos2={rec['cos2']} bzero={rec['bzero']} T={rec['tsp']} broad={rec['broad']} regime={rec.get('regime')} view={rec.get('view')} emitter={rec.get('emitter')} window={rec['window']}"})
    pos = positions(rec)
    sigma = sigma_of(rec)
    lo, hi, bins = window(rec, pos, sigma)
    dl = (hi - lo) / bins
    try:
        got = run_model(rec, None, lo, hi, bins)
    except Exception as ex:          # noqa: BLE001
        bad(f"raised-{type(ex).__name__}", repr(ex)[:200])
        return viol
    # the line is *added*: onto a spectrum that already holds something the increase is the same
    lvl = max(max(got), 1e-30) * 0.5
    got_b = run_model(rec, None, lo, hi, bins, base=lvl)
    if any(abs(a - b_) > 1e-9 * max(lvl, abs(b_)) for a, b_ in zip(got_b, got)):
        bad("does-not-add-to-the-spectrum-it-is-given", "the increase on a pre-filled spectrum differs from the line added to an empty one")
    comps = rec["comps"]
    if not comps:
        if any(x != 0.0 for x in got):
            bad("line-without-width-adds-something", f"max sample {max(got)}")
        return viol
    if all(c["k"] == "g" for c in comps):
        want = [0.0] * bins
        for c in comps:
            w = float(Fraction(c["w"][0], c["w"][1]))
            ctr = pos[c["at"]]
            for i in range(bins):
                a, b = lo + i * dl, lo + (i + 1) * dl
                if b < ctr - 10.5 * sigma or a > ctr + 10.5 * sigma:
                    continue
                want[i] += R0 * w * gauss_bin(ctr, sigma, a, b)
        scale = R0 / dl
        worst = max(abs(g - w) for g, w in zip(got, want))
        # 1e-9 of R / bin width, plus 1e-7 of the largest bin: the component positions come from two vintages of physical
        # constants (scipy's CODATA 2022 here; hc and the Bohr magneton of CODATA 2014/2018 in the code, 8e-9 apart), which
        # moves a Zeeman component by ~5e-10 nm: visible at 3e-8 in the bins of a narrow (carbon) line
        if worst > 1e-9 * scale + 1e-7 * max(want):
            i = max(range(bins), key=lambda j: abs(got[j] - want[j]))
            integral = sum(got) * dl
            bad("bins-differ-from-bin-averaged-profile", f"bin {i}: {got[i]!r} vs {want[i]!r}; integral {integral!r} vs {sum(want) * dl!r}")
    else:
        # pseudo-Voigt: every bin vs  sum_c R w_c [(1 - eta) Gauss bin average + eta modified-Lorentzian bin average]
        # with the documented width / weight fits; the Lorentzian part is integrated numerically by the code
        # (GaussianQuadrature, relative tolerance 1e-5 per bin)
        sg, fl, eta = stark_params(rec)
        want = [0.0] * bins
        for c in comps:
            w = float(Fraction(c["w"][0], c["w"][1]))
            ctr = pos[c["at"]]
            for i in range(bins):
                a, b = lo + i * dl, lo + (i + 1) * dl
                if sg > 0 and eta < 1 and not (b < ctr - 10.5 * sg or a > ctr + 10.5 * sg):
                    want[i] += R0 * w * (1 - eta) * gauss_bin(ctr, sg, a, b)
                if fl > 0 and eta > 0:
                    want[i] += R0 * w * eta * lorentz_bin(ctr, fl, a, b) / dl
        worst = max(abs(g - w) for g, w in zip(got, want))
        # bins tens of nm wide around a line a few hundredths of a nm wide: the adaptive quadrature's own accuracy (its
        # stopping rule compares successive orders) is what is left, 2e-3 as before; 1e-4 for resolved windows
        tol = 2e-3 if (dl > 1.0 or (fl > 0 and dl > fl)) else 1e-4      # bins wider than the Lorentzian itself: quadrature accuracy
        if worst > tol * max(max(want), 1e-300) + 1e-9 * R0 / dl:
            i = max(range(bins), key=lambda j: abs(got[j] - want[j]))
            bad("bins-differ-from-bin-averaged-pseudo-voigt", f"bin {i}: {got[i]!r} vs {want[i]!r}; integral {sum(got) * dl!r} vs {sum(want) * dl!r}")
        if min(got) < 0:
            bad("negative-sample", str(min(got)))
    # pi + sigma = unpolarised, bin by bin (same code on both sides)
    if rec["pol"] == "no" and m in ("zeeman_triplet", "param_zeeman_triplet", "zeeman_multiplet", "stark"):
        gp = run_model(rec, "pi", lo, hi, bins)
        gs = run_model(rec, "sigma", lo, hi, bins)
        scale = max(max(got), 1e-300)
        if max(abs(a + b - c) for a, b, c in zip(gp, gs, got)) > 1e-12 * scale:
            bad("pi-plus-sigma-differs-from-unpolarised", "")
    return viol


CFG = """SPECIFICATION Spec
CONSTANTS
  ModelsC = {"gaussian", "multiplet", "zeeman_triplet", "param_zeeman_triplet", "zeeman_multiplet", "stark", "mse"}
INVARIANT SharesSumToOne
INVARIANT PolarisedShare
INVARIANT PiPlusSigma
INVARIANT NoWidthAddsNothing
INVARIANT EmitCase
"""


def run(v):
    res = core.run_tlc("LineShape", CFG, workers=1, seed=v.seed, timeout=1800)
    core.tlc_must_pass(res, "LineShape")
    v.add_tlc(res, "LineShape")
    cases = [r for r in res.records if "comps" in r]
    if len(cases) < 2000 or len({r["model"] for r in cases}) != 7 or not any(not r["comps"] for r in cases):
        raise core.MachineryError("vacuity: line-shape cases missing")
    out = core.fan_out("mbt.c02", "replay", cases, None)
    for r, vs in zip(cases, out):
        for x in vs:
            v.violation(x["sig"], x["detail"], r)
    v.add_cases(len(cases), keys=[json.dumps({k: r[k] for k in ("model", "pol", "cs", "bzero", "tsp", "broad", "window", "regime", "view", "emitter")}, sort_keys=True) for r in cases])
    from . import c02_quad
    c02_quad.run_part(v)
    v.sample(next(r for r in cases if r["model"] == "mse" and r["comps"]))
    v.sample(next(r for r in cases if r["model"] == "zeeman_multiplet" and r["pol"] == "sigma" and r["comps"]))
    v.assumptions += ["one plasma point, D-alpha, fixed flow and |B| = 2.5 T in four exact angle classes; Gaussian kernels compared bin by bin with erf differences (1e-9 R / bin width)",
                      "Stark pseudo-Voigt: only the integral (2e-3 R, the Lorentzian is cut at +-50 FWHM), polarisation additivity and the no-width case; fit coefficients are inputs",
                      "MSE ratios, multiplet and Zeeman-structure tables are fixed small rationals"]
    return v.finish(rule="one case = one LineShape.tla configuration (model, polarisation, angle class, field on/off, temperature sign, broadening, window class) executed on the real line-shape object; distinct = distinct configurations")


def selftest():
    rec = {"model": "gaussian", "pol": "no", "cos2": [0, 1], "cs": 1, "bzero": True, "tsp": 5, "broad": True, "window": "inside",
           "comps": [{"w": [1, 1], "at": "c", "k": "g"}], "total": [1, 1]}
    good = replay(rec, None)
    bad = replay(dict(rec, comps=[{"w": [1, 2], "at": "c", "k": "g"}]), None)
    from . import c02_quad
    ok = not good and bool(bad) and c02_quad.selftest()
    print("C02 selftest:", "ok" if ok else "FAILED", good[:1], bad[:1])
    return 0 if ok else 2
