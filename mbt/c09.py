"""C09 - ionisation balance.  Spec: spec/IonBalance.tla (exact rational populations per instance).

(R) for every instance TLC enumerates (element, integer rate pattern, donor ratio, donor charge) a mock AtomicData
    with those constant rates is used to run every entry point in every input representation; results are compared
    with the exact fractions (Z <= 8) or with the balance equations themselves (larger Z), and with each other.
"""
import json
from fractions import Fraction

from . import core

ELEMENTS = {1: "hydrogen", 2: "helium", 3: "lithium", 4: "beryllium", 6: "carbon", 8: "oxygen", 10: "neon", 13: "aluminium", 18: "argon"}
UNIT = 1e-14


def mock(rec, el=None):
    from cherab.core.atomic import AtomicData
    from cherab.core.atomic import rates as R

    # the rates answer with the spec's numbers only at the documented arguments (n_e, T_e) of the harness' evaluation points;
    # anywhere else each family is off by its own factor, so that an argument mix-up changes the balance
    def at(v, wrong, ne, te):
        ok = abs(ne - 3.0e19) <= 1e-9 * 3.0e19 and min(abs(te - 123.0), abs(te - 246.0)) <= 1e-9 * 123.0
        return v if ok else wrong * v

    class K2(R.IonisationRate):
        def __init__(self, v): self.v = v
        def evaluate(self, ne, te): return at(self.v, 3.3, ne, te)

    class KR(R.RecombinationRate):
        def __init__(self, v): self.v = v
        def evaluate(self, ne, te): return at(self.v, 0.7, ne, te)

    class KC(R.ThermalCXRate):
        def __init__(self, v): self.v = v
        def evaluate(self, ne, te): return at(self.v, 1.9, ne, te)

    class A(AtomicData):
        def ionisation_rate(self, ion, charge): return K2((rec["S"][charge] if ion is el else 1 + charge % 2) * UNIT)
        def recombination_rate(self, ion, charge): return KR((rec["alpha"][charge - 1] if ion is el else 2) * UNIT)
        def thermal_cx_rate(self, de, dq, re, rq):
            if re is not el:
                return KC(UNIT)
            # the spec's C_z is for donor charge rec['dq']; another donor charge state has other rates
            return KC((rec["cx"][rq - 1] + 2 * (dq - rec["dq"])) * UNIT)
    return A()


def replay_wide(rec, ctx):
    """power-of-ten rates spread over many orders of magnitude: code vs the exact populations 10^logw / sum"""
    import signal
    from cherab.core.atomic import elements as E
    from cherab.tools.plasmas import ionisation_balance as IB
    Z = rec["Z"]
    el = getattr(E, ELEMENTS[Z])
    sexp, aexp, logw = rec["sexp"], rec["aexp"], rec["logw"]

    from cherab.core.atomic import AtomicData
    from cherab.core.atomic import rates as R

    def mk(base, v):
        class C(base):
            def __init__(self): pass
            def evaluate(self, ne, te): return v
        return C()

    class A(AtomicData):
        def ionisation_rate(self, ion, charge): return mk(R.IonisationRate, 10.0 ** (-sexp[charge]))
        def recombination_rate(self, ion, charge): return mk(R.RecombinationRate, 10.0 ** (-aexp[charge - 1]))
    m = max(logw)
    w = [10.0 ** (x - m) for x in logw]
    exact = [x / sum(w) for x in w]
    tag = f"wide-rates:Z{Z}:span{rec['span']}:pattern{rec['pat']}"

    def handler(signum, frame):
        raise TimeoutError()
    old = signal.signal(signal.SIGALRM, handler)
    signal.alarm(20)
    try:
        fa = IB.fractional_abundance(A(), el, 3.0e19, 100.0)
        signal.alarm(0)
    except TimeoutError:
        return [{"sig": f"fractional_abundance:does-not-terminate:{tag}", "detail": f"no result within 20 s (normally 20 ms) for S = 10^-{sexp}, alpha = 10^-{aexp} m^3/s"}]
    finally:
        signal.alarm(0)
        signal.signal(signal.SIGALRM, old)
    got = [float(fa[z]) for z in range(Z + 1)]
    if max(abs(g - e) for g, e in zip(got, exact)) > 1e-6:
        return [{"sig": f"fractional_abundance:differs-from-exact-balance:{tag}",
                 "detail": f"{[round(g, 6) for g in got]} vs exact {[float('%.6g' % e) for e in exact]} for S = 10^-{sexp}, alpha = 10^-{aexp} m^3/s (n_e = 3e19)"}]
    return []


def replay_any(rec, ctx):
    if rec.get("span"):
        return replay_wide(rec, ctx)
    if rec.get("part") == "session":
        from . import c09_session
        return c09_session.replay(rec, ctx)
    return replay(rec, ctx)


def replay(rec, ctx):
    import numpy as np
    from raysect.core.math.function.float import Constant1D, Constant2D
    from cherab.core.atomic import elements as E
    from cherab.tools.plasmas import ionisation_balance as IB
    Z = rec["Z"]
    el = getattr(E, ELEMENTS[Z])
    ad = mock(rec, el)
    viol = []
    dP, dQ = rec["donor"]
    ne = 3.0e19
    te = 123.0
    nd = ne * dP / dQ
    donor = dict(tcx_donor=E.hydrogen if rec["dq"] == 0 else E.helium, tcx_donor_n=nd, tcx_donor_charge=rec["dq"]) if dP else {}
    S = [s * UNIT for s in rec["S"]]
    Rz = [(a + (dP / dQ) * c) * UNIT for a, c in zip(rec["alpha"], rec["cx"])]
    exact = [float(Fraction(w, rec["total"])) for w in rec["w"]] if rec["w"] else None
    tag = f"Z{'<=8' if exact else '>8'}:{'donor-q%d' % rec['dq'] if dP else 'no-donor'}"

    def bad(what, detail):
        viol.append({"sig": f"{what}:{tag}", "detail": f"{detail} | Z={Z} S={rec['S']} alpha={rec['alpha']} cx={rec['cx']} donor={rec['donor']} dq={rec['dq']}"})

    def check_fractions(name, f):
        f = [float(x) for x in f]
        if any(x < -1e-9 or x > 1 + 1e-9 for x in f) or abs(sum(f) - 1) > 1e-8:
            bad(f"{name}:fractions-not-in-unit-simplex", f"{f}")
            return
        if exact is not None:
            if not all(abs(x - y) <= 1e-7 for x, y in zip(f, exact)):
                bad(f"{name}:differs-from-exact-balance", f"{f} vs exact {exact}")
        else:
            for z in range(Z):
                lhs, rhs = f[z] * S[z], f[z + 1] * Rz[z]
                if abs(lhs - rhs) > 1e-7 * max(abs(lhs), abs(rhs), 1e-6 * UNIT):
                    bad(f"{name}:balance-equation-violated", f"z={z}: f_z S_z = {lhs!r}, f_(z+1) R_(z+1) = {rhs!r}")
                    break

    def vec(d, idx=()):
        return [np.asarray(d[z])[idx] if np.ndim(d[z]) else float(d[z]) for z in range(Z + 1)]

    # ---- fractional abundance in every representation
    fa = IB.fractional_abundance(ad, el, ne, te, **donor)
    check_fractions("fractional_abundance[scalar]", [np.asarray(fa[z]).ravel()[0] for z in range(Z + 1)])
    base = [float(np.asarray(fa[z]).ravel()[0]) for z in range(Z + 1)]
    arr = dict(donor)
    if dP:
        arr["tcx_donor_n"] = np.array([nd, nd, nd])
    fb = IB.fractional_abundance(ad, el, np.array([ne, ne, ne]), np.array([te, 2 * te, te]), **arr)
    for i in range(3):
        got = [float(np.asarray(fb[z])[i]) for z in range(Z + 1)]
        if not core.close(got, base, rtol=1e-7, atol=1e-9):
            bad("fractional_abundance[ndarray]:differs-from-scalar-call", f"{got} vs {base}")
            break
    # 2-D profiles handed over as transposed views (column-major in memory), the donor present at some points only: every
    # point's fractions belong to that point
    if dP:
        fa0 = IB.fractional_abundance(ad, el, ne, te, **dict(donor, tcx_donor_n=0.0))
        base0 = [float(np.asarray(fa0[z]).ravel()[0]) for z in range(Z + 1)]
        mask = np.array([[1.0, 0.0, 1.0], [0.0, 0.0, 1.0]])
        for lay, T in (("C", lambda a: np.ascontiguousarray(a.T)), ("transposed-view", lambda a: a.T)):
            ft = IB.fractional_abundance(ad, el, T(np.full((2, 3), ne)), T(np.array([[te, 2 * te, te], [2 * te, te, te]])), **dict(donor, tcx_donor_n=T(mask * nd)))
            for (i, j), mk in np.ndenumerate(mask.T):
                got = [float(np.asarray(ft[z])[i, j]) for z in range(Z + 1)]
                want_ = base if mk else base0
                if not core.close(got, want_, rtol=1e-7, atol=1e-9):
                    bad(f"fractional_abundance[2-D ndarray, {lay}]:point-holds-another-points-fractions", f"at [{i},{j}] {got} vs {want_}")
                    break
            else:
                continue
            break
    fvar = np.array([0.0, 0.5, 1.0])
    f1 = dict(donor)
    if dP:
        f1["tcx_donor_n"] = Constant1D(nd)
    fc = IB.fractional_abundance(ad, el, Constant1D(ne), Constant1D(te), free_variable=fvar, **f1)
    got = [float(np.asarray(fc[z])[1]) for z in range(Z + 1)]
    if not core.close(got, base, rtol=1e-7, atol=1e-9):
        bad("fractional_abundance[Function1D]:differs-from-scalar-call", f"{got} vs {base}")
    f2 = dict(donor)
    if dP:
        f2["tcx_donor_n"] = Constant2D(nd)
    fd = IB.fractional_abundance(ad, el, Constant2D(ne), Constant2D(te), free_variable=(np.array([0.0, 1.0]), np.array([0.0, 1.0, 2.0])), **f2)
    got = [float(np.asarray(fd[z])[1, 2]) for z in range(Z + 1)]
    if not core.close(got, base, rtol=1e-7, atol=1e-9):
        bad("fractional_abundance[Function2D]:differs-from-scalar-call", f"{got} vs {base}")
    # ---- densities from an element density
    n_el = 2.5e17
    de = IB.from_elementdensity(ad, el, n_el, ne, te, **donor)
    got = [float(np.asarray(de[z]).ravel()[0]) / n_el for z in range(Z + 1)]
    check_fractions("from_elementdensity[scalar]", got)
    de1 = IB.from_elementdensity(ad, el, Constant1D(n_el), Constant1D(ne), Constant1D(te), free_variable=fvar, **f1)
    got1 = [float(np.asarray(de1[z])[2]) / n_el for z in range(Z + 1)]
    if not core.close(got1, got, rtol=1e-7, atol=1e-9):
        bad("from_elementdensity[Function1D]:differs-from-scalar-call", f"{got1} vs {got}")
    # the element density is a scale only (IonBalance.tla: ElementPerElectron), also with far more atoms than electrons
    for num, den in rec.get("eldens", []):
        n_s = ne * num / den
        tagd = f"[element density {num}/{den} n_e]"
        import warnings
        with warnings.catch_warnings():
            warnings.simplefilter("ignore")
            ds = IB.from_elementdensity(ad, el, n_s, ne, te, **donor)
            gs = [float(np.asarray(ds[z]).ravel()[0]) / n_s for z in range(Z + 1)]
            check_fractions(f"from_elementdensity[scalar]{tagd}", gs)
            da = IB.from_elementdensity(ad, el, np.array([n_s, n_el]), np.array([ne, ne]), np.array([te, te]), **(dict(donor, tcx_donor_n=np.array([nd, nd])) if dP else {}))
            ga = [float(np.asarray(da[z])[0]) / n_s for z in range(Z + 1)]
            if not core.close(ga, gs, rtol=1e-7, atol=1e-9):
                bad(f"from_elementdensity[ndarray]{tagd}:differs-from-scalar-call", f"{ga} vs {gs}")
    # ---- neutrality matching: other species given, this element fills up the electron density
    oel = E.helium if Z != 2 else E.lithium
    other = IB.from_elementdensity(ad, oel, 1.0e18, ne, te)
    given = sum(z * float(np.asarray(other[z]).ravel()[0]) for z in other)
    mn = IB.match_plasma_neutrality(ad, el, [other], ne, te, **donor)
    dens = [float(np.asarray(mn[z]).ravel()[0]) for z in range(Z + 1)]
    if any(x < 0 for x in dens):
        bad("match_plasma_neutrality:negative-density", f"{dens}")
    charge = sum(z * x for z, x in enumerate(dens)) + given
    if abs(charge - ne) > 1e-7 * ne:
        bad("match_plasma_neutrality:charge-not-equal-electron-density", f"sum z n_z + given = {charge!r}, n_e = {ne!r}")
    tot = sum(dens)
    if tot > 0:
        check_fractions("match_plasma_neutrality", [x / tot for x in dens])
    # ---- the given species carry the fraction g of the electron charge (IonBalance.tla: GivenFracs); g > 1: nothing is left
    mean_other = given / 1.0e18
    for gv in rec.get("given", []):
        g = gv["g"][0] / gv["g"][1]
        bulk = gv["bulk"][0] / gv["bulk"][1] * ne
        n_o = g * ne / mean_other
        oth = IB.from_elementdensity(ad, oel, n_o, ne, te)
        gtag = f"[given-charge-{gv['g'][0]}/{gv['g'][1]}-of-ne]"
        res = {"scalar": lambda: [float(np.asarray(x).ravel()[0]) for x in (lambda m: [m[z] for z in range(Z + 1)])(IB.match_plasma_neutrality(ad, el, [oth], ne, te, **donor))],
               "charges-listed-downwards": lambda: [float(np.asarray(x).ravel()[0]) for x in (lambda m: [m[z] for z in range(Z + 1)])(
                   IB.match_plasma_neutrality(ad, el, [dict(reversed(list(oth.items())))], ne, te, **donor))],
               "ndarray": lambda: [float(np.asarray(x)[1]) for x in (lambda m: [m[z] for z in range(Z + 1)])(
                   IB.match_plasma_neutrality(ad, el, [{z: np.array([float(np.asarray(oth[z]).ravel()[0])] * 3) for z in oth}], np.array([ne, ne, ne]), np.array([te, te, te]), **arr))],
               "interpolators1d": lambda: [float(x(0.5)) for x in (lambda m: [m[z] for z in range(Z + 1)])(
                   IB.interpolators1d_match_plasma_neutrality(ad, el, fvar, [IB.interpolators1d_from_elementdensity(ad, oel, fvar, Constant1D(n_o), Constant1D(ne), Constant1D(te))],
                                                              Constant1D(ne), Constant1D(te), **f1))]}
        for form, f in res.items():
            d = f()
            if any(x < -1e-9 * ne for x in d):
                bad(f"match_plasma_neutrality{gtag}[{form}]:negative-density", f"{d}")
                continue
            ch = sum(z * x for z, x in enumerate(d))
            if g <= 1 and abs(ch - bulk) > 1e-6 * ne:       # (with g > 1 no closure is possible: only the sign is asserted)
                bad(f"match_plasma_neutrality{gtag}[{form}]:charge-not-equal-remaining-electron-density", f"sum z n_z = {ch!r}, (1 - g) n_e = {bulk!r}")
    # ---- interpolator front-ends
    i1 = IB.interpolators1d_fractional(ad, el, fvar, Constant1D(ne), Constant1D(te), **f1)
    got = [float(i1[z](0.25)) for z in range(Z + 1)]
    if not core.close(got, base, rtol=1e-6, atol=1e-8):
        bad("interpolators1d_fractional:differs-from-scalar-call", f"{got} vs {base}")
    i1e = IB.interpolators1d_from_elementdensity(ad, el, fvar, Constant1D(n_el), Constant1D(ne), Constant1D(te), **f1)
    got = [float(i1e[z](0.75)) / n_el for z in range(Z + 1)]
    if not core.close(got, base, rtol=1e-6, atol=1e-8):
        bad("interpolators1d_from_elementdensity:differs-from-fractional-abundance", f"{got} vs {base}")
    i1m = IB.interpolators1d_match_plasma_neutrality(ad, el, fvar, [IB.interpolators1d_from_elementdensity(ad, oel, fvar, Constant1D(1.0e18), Constant1D(ne), Constant1D(te))],
                                                      Constant1D(ne), Constant1D(te), **f1)
    got = [float(i1m[z](0.5)) for z in range(Z + 1)]
    if not core.close(got, dens, rtol=1e-6, atol=1e-6 * ne):
        bad("interpolators1d_match_plasma_neutrality:differs-from-scalar-call", f"{got} vs {dens}")
    return viol


CFG = """SPECIFICATION Spec
CONSTANTS
  Zs = {zs}
  ZExact = 8
  Pats = {pats}
  Spans = {spans}
INVARIANT InUnitInterval
INVARIANT Balance
INVARIANT MeanChargePositive
INVARIANT NoDonorNoCx
INVARIANT WideBalance
INVARIANT BulkNonNegative
INVARIANT EmitCase
"""


def run(v):
    if v.tier == "quick":
        cfgs = [("{1, 2, 3, 6}", "{0, 1}"), ("{8, 18}", "{0}")]
    else:
        cfgs = [("{1, 2, 3, 4, 6, 8}", "{0, 1, 2}"), ("{10, 13, 18}", "{0, 1}")]
    for zs, pats in cfgs:
        res = core.run_tlc("IonBalance", CFG.format(zs=zs, pats=pats, spans="{0}"), workers=1, seed=v.seed, tag="C09", timeout=3000)
        core.tlc_must_pass(res, "IonBalance")
        v.add_tlc(res, f"IonBalance/{zs}")
        cases = [r for r in res.records if "Z" in r]
        if not any(r["dq"] == 1 for r in cases) or not any(r["donor"][0] == 0 for r in cases):
            raise core.MachineryError("vacuity: donor variants missing")
        out = core.fan_out("mbt.c09", "replay", cases, None, chunk=4)
        for r, vs in zip(cases, out):
            for x in vs:
                v.violation(x["sig"], x["detail"], r)
        v.add_cases(len(cases), keys=[json.dumps(r, sort_keys=True) for r in cases])
        v.sample(cases[len(cases) // 2])
    # rates spread over many orders of magnitude (powers of ten, exact populations as integer exponents)
    res = core.run_tlc("IonBalance", CFG.format(zs="{2, 6}", pats="{0, 1, 2, 3}", spans="{2, 6, 20}"), workers=1, seed=v.seed, tag="C09-wide", timeout=3000)
    core.tlc_must_pass(res, "IonBalance/wide")
    v.add_tlc(res, "IonBalance/wide-rates")
    wide = [r for r in res.records if r.get("span")]
    if len(wide) != 24:
        raise core.MachineryError(f"vacuity: {len(wide)} wide-rate instances")
    out = core.fan_out("mbt.c09", "replay_wide", wide, None, chunk=1)
    for r, vs in zip(wide, out):
        for x in vs:
            v.violation(x["sig"], x["detail"], r)
    v.add_cases(len(wide), keys=[json.dumps([r["Z"], r["span"], r["pat"]]) for r in wide])
    from . import c09_session
    c09_session.run_part(v)
    v.assumptions += ["constant integer rates times 1e-14 m^3/s at n_e = 3e19 m^-3 (physical magnitudes: with O(1) rates the lsq_linear system is hopelessly scaled; observed, not asserted)",
                      "tolerance 1e-7 on fractions (scipy lsq_linear)", "equilibrium-mapped entry points are thin wrappers over the interpolator front-ends and are exercised in thorough only"]
    return v.finish(rule="one case = one IonBalance.tla instance (element, rate pattern, donor ratio, donor charge) run through every entry point and input representation; distinct = distinct instances")


def selftest():
    rec = {"Z": 2, "S": [1, 2], "alpha": [1, 1], "cx": [1, 1], "donor": [0, 1], "dq": 0, "w": [1, 1, 2], "total": 4, "zw": 5}
    good = replay(rec, None)
    bad = replay(dict(rec, w=[2, 1, 1]), None)
    from . import c09_session
    ok = not good and bool(bad) and c09_session.selftest()
    print("C09 selftest:", "ok" if ok else "FAILED", good[:1], bad[:1])
    return 0 if ok else 2
