"""C03 - passive emission totals.  Spec: spec/Emission.tla (models exc, rec, tcx, trp, brems).

(R) every configuration TLC enumerates is executed on a real Plasma with constant distributions and a mock provider
    carrying the spec's integer rate table: wavelength-integrated emission vs the spec total / 4 pi, uniform spread
    for total radiated power, bin averages of the Hutchinson kernel for bremsstrahlung, RuntimeError when a needed
    species is missing.  (T) the accessor calls the provider received must be exactly those the rule prescribes.
"""
import json
import math

from . import core
from . import emission_common as EC

LO, HI, BINS = 495.0, 505.0, 200


def brems_kernel_bin(te, lo, hi):
    from scipy import constants as K
    C = (K.e ** 2 / (4 * math.pi * K.epsilon_0)) ** 3 * 32 * math.pi ** 2 / (3 * math.sqrt(3) * K.m_e ** 2 * K.c ** 3)
    C *= math.sqrt(2 * K.m_e / (math.pi * K.e)) * K.c * 1e9 / (4 * math.pi)
    a = K.h * K.c * 1e9 / K.e
    return C / math.sqrt(te) * (te / a) * (math.exp(-a / (te * hi)) - math.exp(-a / (te * lo))) / (hi - lo)


def replay(rec, ctx):
    from raysect.core import Point3D, Vector3D
    from raysect.optical import Spectrum
    from cherab.core.atomic import Line
    from cherab.core.model import ExcitationLine, RecombinationLine, ThermalCXLine, TotalRadiatedPower, Bremsstrahlung
    rates = (ctx or rec)["rates"]
    calls = EC.Calls()
    nu0 = EC.nu(rec)

    def expect(tag):
        ne_, te_ = rec["ne"] * nu0, float(rec["te"])
        if tag == "gaunt":
            return (te_, LO, HI)
        if tag.startswith("tcx:"):
            return (ne_, te_, float(rec["temp"][tag[4:]]))
        return (ne_, te_)
    ad = EC.provider(rates, calls, expect)
    pl = EC.plasma(rec)
    m = rec["model"]
    d, c = EC.element("d"), EC.element("c")
    model = {"exc": lambda: ExcitationLine(Line(d, 0, (3, 2))), "rec": lambda: RecombinationLine(Line(d, 0, (3, 2))),
             "tcx": lambda: ThermalCXLine(Line(c, 5, (8, 7))), "trp": lambda: TotalRadiatedPower(c, 5), "brems": lambda: Bremsstrahlung()}[m]()
    model.plasma = pl
    model.atomic_data = ad
    viol = []

    def bad(what, detail):
        viol.append({"sig": f"{m}:{what}" + ("" if rec.get("prior", "none") == "none" else f"@after-other-{rec['prior']}"), "detail": f"{detail} | dens={rec['dens']} temp={rec['temp']} ne={rec['ne']} te={rec['te']}"})
    EC.prior_phase(rec, rates, model, lambda: model.emission(Point3D(0.1, 0.2, 0.3), Vector3D(1, 0, 0), Spectrum(LO, HI, BINS)), calls, ad, pl,
                   evaluate_elsewhere=lambda: model.emission(Point3D(*EC.ELSEWHERE), Vector3D(1, 0, 0), Spectrum(LO, HI, BINS)))
    sp = Spectrum(LO, HI, BINS)
    try:
        out = model.emission(Point3D(0.1, 0.2, 0.3), Vector3D(1, 0, 0), sp)
    except RuntimeError as ex:
        if not rec["raises"]:
            bad("raised-RuntimeError", repr(ex)[:150])
        return viol
    except Exception as ex:       # noqa: BLE001
        bad(f"raised-{type(ex).__name__}", repr(ex)[:150])
        return viol
    if rec["raises"]:
        bad("missing-species-not-reported", f"needs {rec['needs']}")
        return viol
    if rec["unspecified"]:
        return [{"observation": f"{m}:negative-donor-density"}]
    samples = [float(x) for x in out.samples]
    # the model *adds* to the spectrum it is handed: on a spectrum that already holds something (other models ran before it)
    # the increase is the same
    base_level = max(max(samples), 1e-30) * 0.5
    sp2 = Spectrum(LO, HI, BINS)
    sp2.samples[:] = base_level
    out2 = model.emission(Point3D(0.1, 0.2, 0.3), Vector3D(1, 0, 0), sp2)
    inc = [float(x) - base_level for x in out2.samples]
    if any(abs(a - b) > 1e-9 * max(abs(base_level), abs(b)) for a, b in zip(inc, samples)):
        k_ = max(range(BINS), key=lambda i: abs(inc[i] - samples[i]))
        bad("does-not-add-to-the-spectrum-it-is-given", f"bin {k_}: increase {inc[k_]!r} on a pre-filled spectrum, {samples[k_]!r} on an empty one")
    dl = (HI - LO) / BINS
    integral = sum(samples) * dl
    nu = EC.nu(rec)
    scale = nu * nu * EC.UNIT
    if m == "brems":
        K = rec["total"] * nu * nu              # ne * sum n_i Z^2 g  (gaunt is dimensionless)
        te = float(rec["te"])
        for i in (0, BINS // 2, BINS - 1):
            lo, hi = LO + i * dl, LO + (i + 1) * dl
            want = K * brems_kernel_bin(te, lo, hi) if K else 0.0
            if not core.close(samples[i], want, rtol=1e-8, atol=0.0):
                bad("bin-average-differs-from-hutchinson-formula", f"bin {i}: {samples[i]!r} vs {want!r}")
                break
    else:
        want = rec["total"] * scale / (4 * math.pi)
        if not core.close(integral, want, rtol=1e-9, atol=1e-300):
            kind = "nonzero-where-zero-expected" if want == 0 else ("zero-where-emission-expected" if integral == 0 else "total-differs")
            bad(kind, f"integrated emission {integral!r}, spec total/4pi = {want!r}")
        if m == "trp" and want and max(samples) - min(samples) > 1e-12 * max(samples):
            bad("not-uniform-over-window", "")
    if min(samples) < 0:
        bad("negative-emission", str(min(samples)))
    # (T) accessor calls: exactly the rule's coefficients
    got = {tuple(x) for x in calls if x[0] not in ("eval", "wavelength")}
    want_calls = set()
    if m == "exc": want_calls = {("exc", "d0")}
    elif m == "rec": want_calls = {("rec", "d0")}
    elif m == "tcx": want_calls = {("tcx", s, "c6") for s in rec["donors"]}
    elif m == "trp": want_calls = {("plt", "c5"), ("prb", "c6"), ("prc", "c6")}
    elif m == "brems": want_calls = {("gaunt",)}
    # which coefficients the model fetched and where it evaluated them is not something the statement prescribes: when the
    # emission itself is right these are recorded as observations; when it is wrong they name the reason
    wrong_total = bool(viol)
    notes = []

    def remark(what, detail):
        if wrong_total:
            bad(what, detail)
        else:
            notes.append({"observation": f"{m}:{what}"})
    if not (got <= want_calls | set(calls.earlier) and want_calls <= got | set(calls.earlier)):
        remark("provider-asked-for-other-coefficients", f"asked {sorted(got)}, rule prescribes {sorted(want_calls)}")
    # (T) arguments of the coefficient evaluations: PEC(n_e, T_e), PEC_d(n_e, T_e, T_d), g_ff(Z, T_e, wavelength in the window)
    ne, te = rec["ne"] * nu, float(rec["te"])
    for tag, args in [(x[1], x[2]) for x in calls if x[0] == "eval"]:
        if tag == "gaunt":
            ok = args[0] in {float(q) for s_, (sy, q, z) in rec["species"].items() if q > 0 and rec["dens"][s_] != -9} and args[1] == te and LO <= args[2] <= HI
            exp = ("charge of a present ion", te, f"{LO}..{HI}")
        elif tag.startswith("tcx:"):
            exp = (ne, te, float(rec["temp"][tag[4:]]))
            ok = core.close(list(args), list(exp), rtol=1e-12)
        else:
            exp = (ne, te)
            ok = core.close(list(args), list(exp), rtol=1e-12)
        if not ok:
            remark("coefficient-evaluated-at-wrong-arguments", f"{tag}{args} vs {exp}")
            break
    return viol + notes


CFG = """SPECIFICATION Spec
CONSTANTS
  Models = {models}
  Extra = {extra}
INVARIANT ZeroWhenNonPositive
INVARIANT NonNegative
INVARIANT QBetween
INVARIANT BeamVanishes
INVARIANT EmitCase
"""
MODELS = '{"exc", "rec", "tcx", "trp", "brems"}'


def run_models(v, mod, models, fn="replay"):
    res = core.run_tlc("Emission", CFG.format(models=models, extra="{}" if v.tier == "quick" else "{3}"), workers=1, seed=v.seed, tag=v.pid, timeout=3000)
    core.tlc_must_pass(res, "Emission")
    v.add_tlc(res, "Emission/" + models)
    rates = [r for r in res.records if "rates" in r][0]["rates"]
    cases = [r for r in res.records if "model" in r]
    if v.tier == "quick" and len(cases) > 40000:
        import random
        rng = random.Random(v.seed)
        cases = [r for r in cases if rng.random() < 40000 / len(cases)]
    if len({r["model"] for r in cases}) != models.count(",") + 1 or not any(r["raises"] for r in cases) or len({r.get("mag") for r in cases}) < 3:
        raise core.MachineryError("vacuity: models / raising cases missing")
    out = core.fan_out(mod, fn, cases, {"rates": rates})
    obs = {}
    for r, vs in zip(cases, out):
        for x in vs:
            if "observation" in x:
                obs[x["observation"]] = obs.get(x["observation"], 0) + 1
            else:
                v.violation(x["sig"], x["detail"], dict(r, rates=rates))
    v.add_cases(len(cases), keys=[json.dumps([r["model"], r.get("prior"), r.get("flow"), r.get("mag"), r.get("bcx_zero"), r["dens"], r["temp"], r["ne"], r["te"], r["nb"]], sort_keys=True) for r in cases])
    v.sample({k: cases[len(cases) // 2][k] for k in ("model", "dens", "temp", "ne", "te", "total", "raises")})
    v.notes["not_asserted"] = obs
    return cases


def run(v):
    run_models(v, "mbt.c03", MODELS)
    v.assumptions += ["constant distributions at one point; integer densities x 1e10 m^-3, rates x 1e-20 W m^3; line window 495-505 nm around the mock wavelength 500 nm (Gaussian line shape, C02 covers shapes)",
                      "negative donor / hydrogen densities (the statement's clauses disagree there) are observed, not asserted",
                      "bremsstrahlung compared with Hutchinson 5.3.40 evaluated with CODATA constants and the closed-form bin integral for a constant Gaunt factor"]
    return v.finish(rule="one case = one configuration of Emission.tla (model, composition with present/absent/zero/negative densities, temperatures, n_e, T_e) executed on the real model; distinct = distinct configurations")


def selftest():
    rates = {"exc": 3, "rec": 5, "plt": 11, "prb": 13, "prc": 17, "gaunt": [3, 4, 5, 6, 7, 8], "tcx": {"d0": 9, "d1": 11, "he1": 13, "c5": 15, "c6": 17},
             "bmp": {}, "bes": {}, "bcx": [23, 27]}
    rec = {"model": "exc", "dens": {"d0": 2, "d1": -9, "he1": -9, "c5": -9, "c6": -9}, "temp": {"d0": 3, "d1": 3, "he1": 3, "c5": 3, "c6": 3}, "ne": 2, "te": 3, "nb": 0,
           "raises": False, "total": 12, "unspecified": False, "needs": ["d0"], "donors": [], "hyd": ["d0"], "rates": rates,
           "species": {"d0": ["d", 0, 1], "d1": ["d", 1, 1], "he1": ["he", 1, 2], "c5": ["c", 5, 6], "c6": ["c", 6, 6]}}
    good = replay(rec, None)
    bad = replay(dict(rec, total=18), None)
    ok = not any("sig" in x for x in good) and any("sig" in x for x in bad)
    print("C03 selftest:", "ok" if ok else "FAILED", good[:1], bad[:1])
    return 0 if ok else 2
