"""C11 - inversion solvers.  Specs: spec/Sart.tla (SART as a state machine over exact rationals),
spec/LeastSquares.tla (exact minimisers of the regularised problems, certified by normal equations / KKT).

(R) every terminal state of Sart.tla (instance, number of iterations taken, iterate, convergence list) is compared
    with invert_sart / invert_constrained_sart; every LeastSquares.tla instance with invert_regularised_lstsq /
    invert_regularised_nnls (solution, reported residual); invert_svd is checked by its certificate.
"""
import json
import math
from fractions import Fraction

from . import core


def fr(p):
    return float(Fraction(p[0], p[1]))


def replay_sart(rec, ctx):
    import numpy as np
    from cherab.tools.inversions import invert_sart, invert_constrained_sart
    W = np.array(rec["W"], float)
    b = np.array(rec["b"], float)
    x0 = np.array([fr(p) for p in rec["x0"]])
    relax, beta = fr(rec["relax"]), fr(rec["beta"])
    n = W.shape[1]
    maxit = ctx["maxiter"] if ctx else rec["maxiter"]
    viol = []
    variants = [("array", x0.copy())]
    if len(set(x0)) == 1:
        variants.append(("scalar", float(x0[0])))
    for vname, guess in variants:
        if beta == 0:
            name = "invert_sart"
            x, conv = invert_sart(W, b, initial_guess=guess, max_iterations=maxit, relaxation=relax)
        else:
            name = "invert_constrained_sart"
            L = np.array([[fr(p) for p in row] for row in rec["L"]])
            x, conv = invert_constrained_sart(W, L, b, initial_guess=guess, max_iterations=maxit, relaxation=relax, beta_laplace=beta)
        want_x = [fr(p) for p in rec["x"]]
        want_c = [fr(p) for p in rec["conv"]]

        def bad(what, detail):
            zero_col = bool((W.sum(axis=0) == 0).any())
            viol.append({"sig": f"{name}:{what}" + (":zero-column" if zero_col else ""),
                         "detail": f"{detail} | W={rec['W']} b={rec['b']} x0={list(x0)} relax={relax} beta={beta} L={rec.get('lap')} guess={vname}"})
        if len(conv) != rec["iters"]:
            bad("stopping-rule-differs", f"{len(conv)} iterations, spec {rec['iters']} (conv {list(conv)} vs {want_c})")
            continue
        # the same problem with geometry matrix and measurements multiplied by 10^e: same iterate, same convergence list
        for e in rec.get("scale_exps", [0])[1:]:
            sc = 10.0 ** e
            g2 = x0.copy() if vname == "array" else guess        # the solvers iterate in the array they are given: a fresh copy per call
            if beta == 0:
                xs, cs = invert_sart(W * sc, b * sc, initial_guess=g2, max_iterations=maxit, relaxation=relax)
            else:
                xs, cs = invert_constrained_sart(W * sc, L, b * sc, initial_guess=g2, max_iterations=maxit, relaxation=relax, beta_laplace=beta)
            if len(cs) != rec["iters"] or not core.close([float(q) for q in xs], [fr(p) for p in rec["x"]], rtol=1e-9, atol=1e-11):
                bad(f"iterate-changes-when-W-and-b-are-scaled-by-1e{e}", f"x = {list(xs)} after {len(cs)} iterations, spec {[fr(p) for p in rec['x']]} after {rec['iters']}")
                break
        if not core.close([float(c) for c in conv], want_c, rtol=1e-10, atol=1e-12):
            bad("convergence-list-differs", f"{list(conv)} vs {want_c}")
        if not core.close([float(v) for v in x], want_x, rtol=1e-10, atol=1e-12):
            bad("iterate-differs-from-update-rule", f"x = {list(x)}, spec {want_x}")
        if (np.asarray(x) < 0).any():
            bad("negative-solution", str(list(x)))
    return viol


def replay_lsq(rec, ctx):
    import numpy as np
    from cherab.tools.inversions import invert_regularised_nnls, invert_regularised_lstsq, invert_svd
    W = np.array(rec["W"], float)
    b = np.array(rec["b"], float)
    alpha = math.sqrt(fr(rec["alpha2"]))
    viol = []

    def bad(what, detail):
        viol.append({"sig": what + ("@alpha-scan" if rec.get("prev_alpha2", [0, 1])[0] else ""), "detail": f"{detail} | W={rec['W']} b={rec['b']} alpha={alpha} previous alpha^2={rec.get('prev_alpha2')}"})
    # the caller's own Tikhonov array (identity), possibly used before in the same alpha scan
    Lmat = np.eye(2)
    pa = math.sqrt(fr(rec["prev_alpha2"])) if rec.get("prev_alpha2", [0, 1])[0] else None
    if pa is not None:
        invert_regularised_lstsq(W, b, alpha=pa, tikhonov_matrix=Lmat)
        if b.max() > 0:
            invert_regularised_nnls(W, b, alpha=pa, tikhonov_matrix=Lmat)
    x, res = invert_regularised_lstsq(W, b, alpha=alpha, tikhonov_matrix=Lmat)
    want = [fr(p) for p in rec["lstsq"]]
    if not core.close([float(v) for v in x], want, rtol=1e-9, atol=1e-12):
        bad("lstsq:not-the-minimiser", f"x = {list(x)}, exact {want}")
    if len(res) == 1 and not core.close(float(res[0]), fr(rec["obj_lstsq"]), rtol=1e-9, atol=1e-12):
        bad("lstsq:reported-residual-inconsistent", f"{res} vs objective {fr(rec['obj_lstsq'])}")
    if b.max() > 0:
        x, rnorm = invert_regularised_nnls(W, b, alpha=alpha, tikhonov_matrix=Lmat)
        want = [fr(p) for p in rec["nnls"]]
        if not core.close([float(v) for v in x], want, rtol=1e-9, atol=1e-11):
            bad("nnls:not-the-minimiser", f"x = {list(x)}, exact {want}")
        if not core.close(float(rnorm), math.sqrt(fr(rec["obj_nnls"])), rtol=1e-9, atol=1e-11):
            bad("nnls:reported-residual-inconsistent", f"{rnorm} vs sqrt(objective) {math.sqrt(fr(rec['obj_nnls']))}")
        if (np.asarray(x) < 0).any():
            bad("nnls:negative-solution", str(list(x)))
    # the geometry matrix and the measurements handed over as integer arrays (a hand-typed 0/1 incidence matrix):
    # LeastSquares.tla: Reprs - the minimisers do not depend on the dtype the caller's arrays happen to have
    for dt in rec.get("reprs", ["float64"]):
        if dt == "float64":
            continue
        if dt == "fortran":
            # column-major geometry matrix, measurements as a strided view of a longer array
            Wi = np.asfortranarray(np.array(rec["W"], dtype=float))
            bi = np.repeat(np.array(rec["b"], dtype=float), 2)[::2]
        else:
            Wi, bi = np.array(rec["W"], dtype=dt), np.array(rec["b"], dtype=dt)
        xi, _ = invert_regularised_lstsq(Wi, bi, alpha=alpha, tikhonov_matrix=np.eye(2))
        if not core.close([float(v) for v in xi], [fr(p) for p in rec["lstsq"]], rtol=1e-9, atol=1e-12):
            bad(f"lstsq:not-the-minimiser[{dt}-arrays]", f"x = {list(xi)}, exact {[fr(p) for p in rec['lstsq']]}")
        if b.max() > 0:
            xi, _ = invert_regularised_nnls(Wi, bi, alpha=alpha, tikhonov_matrix=np.eye(2))
            if not core.close([float(v) for v in xi], [fr(p) for p in rec["nnls"]], rtol=1e-9, atol=1e-11):
                bad(f"nnls:not-the-minimiser[{dt}-arrays]", f"x = {list(xi)}, exact {[fr(p) for p in rec['nnls']]}")
    # the default (no Tikhonov matrix given = identity) must agree
    xd, _ = invert_regularised_lstsq(W, b, alpha=alpha)
    if not core.close([float(v) for v in xd], [fr(p) for p in rec["lstsq"]], rtol=1e-9, atol=1e-12):
        bad("lstsq:default-tikhonov-differs", f"x = {list(xd)}")
    # invert_svd vs the exact minimum-norm solution, for the problem as it is and multiplied by powers of ten
    if "minnorm" in rec:
        wantm = [fr(p) for p in rec["minnorm"]]
        for e in rec["scale_exps"]:
            sc = 10.0 ** e
            xm = invert_svd(W * sc, b * sc)
            if not core.close([float(q) for q in xm], wantm, rtol=1e-8, atol=1e-10):
                bad(f"svd:not-the-minimum-norm-solution:rank{rec['rank']}:scale1e{e}", f"x = {list(xm)}, exact {wantm}")
                break
    # invert_svd: minimum-norm least-squares solution, certified by the normal equations and x in the row space of W
    xs = invert_svd(W, b)
    g = W.T @ (W @ xs - b)
    if np.abs(g).max() > 1e-9 * max(1.0, np.abs(W.T @ b).max()):
        bad("svd:normal-equations-not-satisfied", f"x = {list(xs)}, W^T(Wx-b) = {list(g)}")
    proj, *_ = np.linalg.lstsq(W.T, xs, rcond=None)
    if np.abs(W.T @ proj - xs).max() > 1e-9 * max(1.0, np.abs(xs).max()):
        bad("svd:not-minimum-norm", f"x = {list(xs)} has a component outside the row space of W")
    return viol


CFG_SART = """SPECIFICATION Spec
CONSTANTS
  M = {m}
  N = {n}
  Entries = {entries}
  Meas = {{0, 1, 2}}
  MaxIter = {maxiter}
  Betas = {{0, 1}}
  Relax = {{1, 2}}
  LapKinds = {{"chain", "rownorm"}}
INVARIANT NonNegative
INVARIANT ExactSolutionIsFixedPoint
INVARIANT UnseenVoxelKeepsValue
INVARIANT EmitFinal
"""
CFG_LSQ = """SPECIFICATION Spec
CONSTANTS
  M = {m}
  Entries = {{0, 1, 2}}
  Meas = {{0, 1, 3}}
  Alphas = {{1, 2}}
INVARIANT NormalEquations
INVARIANT KKTHasSolution
INVARIANT KKTUnique
INVARIANT NNLSNotBelowUnconstrained
INVARIANT NNLSEqualsUncWhenFeasible
INVARIANT MinNormSolvesNormalEquations
INVARIANT EmitCase
"""


def run(v):
    plan = [(2, 2, "{0, 1, 2}", 2), (2, 3, "{0, 1}", 2)] if v.tier == "quick" else [(2, 2, "{0, 1, 2}", 2), (2, 3, "{0, 1}", 2), (3, 2, "{0, 1}", 2), (1, 3, "{0, 1, 2}", 2), (3, 1, "{0, 1, 2}", 3)]
    for m, n, entries, maxiter in plan:
        res = core.run_tlc("Sart", CFG_SART.format(m=m, n=n, entries=entries, maxiter=maxiter), workers=1, seed=v.seed, tag=f"C11-sart{m}{n}", timeout=3000)
        core.tlc_must_pass(res, f"Sart {m}x{n}")
        v.add_tlc(res, f"Sart/{m}x{n}")
        finals = [r for r in res.records if "conv" in r]
        if not any(r["iters"] < maxiter for r in finals) and maxiter > 2:
            raise core.MachineryError("vacuity: the convergence stop was never taken")
        if not any(any(sum(col) == 0 for col in zip(*r["W"])) for r in finals) or not any(any(sum(row) == 0 for row in r["W"]) for r in finals):
            raise core.MachineryError("vacuity: no zero row / zero column instance")
        out = core.fan_out("mbt.c11", "replay_sart", finals, {"maxiter": maxiter})
        for r, vs in zip(finals, out):
            for x in vs:
                v.violation(x["sig"], x["detail"], dict(r, maxiter=maxiter, sart=True))
        v.add_cases(len(finals), keys=[json.dumps([r["W"], r["b"], r["x0"], r["relax"], r["beta"], r["lap"]]) for r in finals])
        v.sample(finals[len(finals) // 3])
    for m in ([2] if v.tier == "quick" else [1, 2, 3]):
        res = core.run_tlc("LeastSquares", CFG_LSQ.format(m=m), workers=1, seed=v.seed, tag=f"C11-lsq{m}", timeout=3000)
        core.tlc_must_pass(res, f"LeastSquares m={m}")
        v.add_tlc(res, f"LeastSquares/m{m}")
        cases = [r for r in res.records if "lstsq" in r]
        out = core.fan_out("mbt.c11", "replay_lsq", cases, None)
        for r, vs in zip(cases, out):
            for x in vs:
                v.violation(x["sig"], x["detail"], r)
        v.add_cases(len(cases), keys=[json.dumps([r["W"], r["b"], r["alpha2"], r.get("prev_alpha2")]) for r in cases])
        v.sample(cases[len(cases) // 2])
    v.assumptions += ["small integer matrices (entries 0..2, up to 3x3 incl. zero rows/columns and rank-deficient ones), rational guesses; the default initial guess exp(-1) is irrational and is not used",
                      "a zero measurement vector makes the convergence measure undefined and is excluded", "OpenCL SART variant not exercised (no device)"]
    return v.finish(rule="one case = one terminal state of Sart.tla (instance + iterate + convergence list) or one LeastSquares.tla instance compared with the real solver; distinct = distinct instances")


def replay_any(rec, ctx):
    return replay_sart(rec, None) if rec.get("sart") else replay_lsq(rec, None)


def selftest():
    rec = {"W": [[1, 0], [0, 1]], "b": [1, 2], "x0": [[1, 1], [1, 1]], "relax": [1, 1], "beta": [0, 1], "iters": 2, "x": [[1, 1], [2, 1]], "conv": [[0, 1], [0, 1]], "maxiter": 2}
    good = replay_sart(rec, None)
    bad = replay_sart(dict(rec, x=[[1, 1], [3, 1]]), None)
    ok = not good and bool(bad)
    print("C11 selftest:", "ok" if ok else "FAILED", good[:1], bad[:1])
    return 0 if ok else 2
