"""C01 / C05, composition.  Spec: spec/Composition.tla (set / add / clear of species, iteration order, Z_eff, n_ion).

(R) every history TLC explores is replayed on a real Plasma: iteration order, the object held per (element, charge)
    (identity), len, lookup of absent keys (ValueError), the number of notifications the plasma sent, Z-effective
    (exact rational or ValueError) and the ion density are compared after the last call."""
import json
from fractions import Fraction

from . import core

NU = 1e17


def _species(o, dens):
    from raysect.core import Vector3D
    from cherab.core import Species
    from cherab.core.atomic import deuterium, carbon
    from cherab.core.distribution import Maxwellian
    from cherab.core.math import Constant3D, ConstantVector3D
    (el, q), i = o
    e = deuterium if el == "d" else carbon
    return Species(e, q, Maxwellian(Constant3D(dens * NU), Constant3D(10.0 * i), ConstantVector3D(Vector3D(0, 0, 0)), e.atomic_weight * 1.66053906660e-27))


def replay(rec, ctx):
    from cherab.core import Plasma
    from cherab.core.atomic import deuterium, carbon
    h = rec["h"]
    dens = {json.dumps(o): d for o, d in rec["dens"]}
    objs = {}

    def obj(o):
        key = json.dumps(o)
        if key not in objs:
            objs[key] = _species(o, dens[key])
        return objs[key]
    p = Plasma()
    count = [0]

    class L:
        def cb(self):
            count[0] += 1
    listener = L()
    p.notifier.add(listener.cb)
    outcome = "ok"
    for e in h:
        outcome = "ok"
        try:
            if e["op"] == "set":
                p.composition.set([obj(o) for o in e["arg"]])
            elif e["op"] == "add":
                p.composition.add(obj(e["arg"][0]))
            elif e["op"] == "clear":
                p.composition.clear()
            elif e["op"] == "set_wrong_type":
                p.composition.set([obj([["d", 1], 1]), "not a species"])
            elif e["op"] == "add_none":
                p.composition.add(None)
            else:
                list(p.composition), len(p.composition)
        except (ValueError, TypeError) as ex:
            outcome = type(ex).__name__
        except Exception as ex:          # noqa: BLE001
            outcome = "raised-" + type(ex).__name__
    last = h[-1]["op"]
    viol = []

    def bad(what, detail):
        viol.append({"sig": f"composition:{last}:{what}", "detail": f"{detail} | history {json.dumps(h)[:400]}"})
    if outcome != rec["outcome"]:
        bad(f"outcome-{outcome}-expected-{rec['outcome']}", "")
    el = {"d": deuterium, "c": carbon}
    got_order = [[("d" if s.element is deuterium else "c"), s.charge] for s in p.composition]
    if got_order != [list(k) for k in rec["order"]]:
        bad("iteration-order-differs", f"{got_order} vs {rec['order']}")
    if len(p.composition) != len(rec["order"]):
        bad("len-differs", f"{len(p.composition)} vs {len(rec['order'])}")
    for k, i in rec["held"]:
        try:
            s = p.composition.get(el[k[0]], k[1])
            if i == 0:
                bad("absent-species-found", f"{k}")
            elif s is not obj([k, i]):
                bad("holds-another-species-object", f"{k}: expected the object with id {i}")
            elif p.composition[(el[k[0]], k[1])] is not s:
                bad("index-lookup-differs-from-get", f"{k}")
        except ValueError:
            if i != 0:
                bad("held-species-not-found", f"{k}")
    if count[0] != rec["notified"]:
        bad("notification-count-differs", f"plasma notified {count[0]} times, spec {rec['notified']}")
    try:
        z = p.z_effective(0.1, 0.2, 0.3)
        if rec["zeff"] == ["ValueError"]:
            bad("z_effective-without-ions-did-not-raise", repr(z))
        elif not core.close(z, float(Fraction(rec["zeff"][0], rec["zeff"][1])), rtol=1e-14):
            bad("z_effective-differs", f"{z!r} vs {rec['zeff'][0]}/{rec['zeff'][1]}")
    except ValueError:
        if rec["zeff"] != ["ValueError"]:
            bad("z_effective-raised", f"expected {rec['zeff']}")
    n = p.ion_density(0.1, 0.2, 0.3)
    if not core.close(n, rec["nion"] * NU, rtol=1e-14, atol=0.0):
        bad("ion_density-differs", f"{n!r} vs {rec['nion']} x {NU}")
    return viol


CFG = """SPECIFICATION Spec
CONSTANTS
  MaxHist = {depth}
INVARIANT OrderMatchesHeld
INVARIANT ZEffBetweenCharges
PROPERTY NotifyOncePerMutation
VIEW View
ACTION_CONSTRAINT Emit
"""
SPEC_MUTANTS = [
    ("add-appends-even-if-present", "IF o[1] \\in Rng(order) THEN order ELSE Append(order, o[1])", "Append(order, o[1])"),
    ("clear-does-not-notify", "         /\\ notified' = notified + 1 /\\ outcome' = \"ok\" /\\ touched' = FALSE /\\ Log([op |-> \"clear\", arg |-> <<>>])", "         /\\ notified' = notified /\\ outcome' = \"ok\" /\\ touched' = FALSE /\\ Log([op |-> \"clear\", arg |-> <<>>])"),
    ("neutrals-counted-as-ions", "Ions == {k \\in Present : k[2] > 0}", "Ions == Present"),
]


def run_part(v):
    depth = 2 if v.tier == "quick" else 3
    res = core.run_tlc("Composition", CFG.format(depth=depth), workers=1, seed=v.seed, timeout=3000, tag="C05-composition")
    core.tlc_must_pass(res, "Composition")
    v.add_tlc(res, "Composition")
    edges = [r for r in res.records if "h" in r]
    ops = {r["h"][-1]["op"] for r in edges}
    if ops != {"set", "add", "clear", "set_wrong_type", "add_none", "read"} or not any(r["zeff"] == ["ValueError"] for r in edges) or not any(len(r["zeff"]) == 2 and r["zeff"][1] != r["zeff"][0] for r in edges):
        raise core.MachineryError(f"vacuity: Composition actions {ops}")
    if len(edges) > 20000:
        import random
        edges = random.Random(v.seed).sample(edges, 20000)
    out = core.fan_out("mbt.c05_composition", "replay", edges, None)
    for r, vs in zip(edges, out):
        for x in vs:
            v.violation(x["sig"], x["detail"], dict(r, part="composition"))
    v.add_cases(len(edges), keys=["comp" + json.dumps(r["h"]) for r in edges])
    if v.tier == "thorough":
        from . import specmut
        v.notes["composition_spec_mutants"] = specmut.audit("Composition", CFG.format(depth=2).replace("ACTION_CONSTRAINT Emit\n", ""), SPEC_MUTANTS)


def selftest():
    h = [{"op": "add", "arg": [[["c", 6], 1]]}, {"op": "add", "arg": [[["d", 1], 2]]}]
    dens = [[[["d", 0], 1], 5], [[["d", 0], 2], 10], [[["d", 1], 1], 0], [[["d", 1], 2], 3], [[["c", 6], 1], 2], [[["c", 6], 2], 4]]
    rec = {"h": h, "order": [["c", 6], ["d", 1]], "held": [[["d", 0], 0], [["d", 1], 2], [["c", 6], 1]], "notified": 2, "outcome": "ok",
           "zeff": [2 * 36 + 3, 2 * 6 + 3], "nion": 5, "dens": dens}
    good = replay(rec, None)
    bad = replay(dict(rec, zeff=[75, 14]), None)
    return not good and bool(bad)
