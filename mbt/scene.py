"""Real-scene side of Scene.tla (C01): valuation, builder, mutators, observations.

cfg is a dict parameter -> abstract value (1 or 2, models lists also 3).  `build(cfg)` constructs the
scene from scratch in the canonical order the test-suite itself uses; `apply(scene, action)` performs one
public mutator call; `observe(scene)` returns every observation as comparable plain data.
"""
import math

PARAMS = ["P_bfield", "P_edist", "P_comp", "P_adata", "P_geom", "P_geomT", "P_integ", "P_models", "P_xf", "P_parent", "N_xf",
          "B_energy", "B_power", "B_temp", "B_element", "B_divx", "B_divy", "B_length", "B_sigma", "B_adata", "B_att", "A_step",
          "A_clampZero", "A_clampSigma", "B_models", "B_integ", "B_xf", "B_parent", "M_cxline",
          "L_profile", "LP_energy", "LP_length", "LP_radius", "L_spectrum", "L_models", "L_integ", "L_importance", "L_xf"]

_MOCK = {}


def mocks():
    """Mock atomic-data providers with constant, pairwise distinct rates (scaled by k)."""
    if _MOCK:
        return _MOCK
    from cherab.core.atomic import AtomicData
    from cherab.core.atomic import rates as R
    from cherab.core.atomic.gaunt import FreeFreeGauntFactor

    def h(*a):
        s = 0
        for x in a:
            for ch in str(getattr(x, "symbol", x)):
                s = (s * 131 + ord(ch)) % 1009
        return 1.0 + s / 1009.0

    class CIon(R.IonisationRate):
        def __init__(self, v): self.v = v
        def evaluate(self, ne, te): return self.v

    class CPEC2(R.ImpactExcitationPEC):
        def __init__(self, v): self.v = v
        def evaluate(self, ne, te): return self.v

    class CRec(R.RecombinationPEC):
        def __init__(self, v): self.v = v
        def evaluate(self, ne, te): return self.v

    class CTcx(R.ThermalCXPEC):
        def __init__(self, v): self.v = v
        def evaluate(self, ne, te, td): return self.v

    class CLine(R.LineRadiationPower):
        def __init__(self, v): self.v = v
        def evaluate(self, ne, te): return self.v

    class CCont(R.ContinuumPower):
        def __init__(self, v): self.v = v
        def evaluate(self, ne, te): return self.v

    class CCxp(R.CXRadiationPower):
        def __init__(self, v): self.v = v
        def evaluate(self, ne, te): return self.v

    class CBcx(R.BeamCXPEC):
        def __init__(self, m, v):
            super().__init__(m)
            self.v = v
        def evaluate(self, e, t, n, z, b): return self.v * (1 + 0.01 * b) * (1 + 0.003 * z) * (1 + 1e-6 * e) * (1 + 1e-4 * t)

    class CStop(R.BeamStoppingRate):
        def __init__(self, v): self.v = v
        def evaluate(self, e, n, t): return self.v * (1 + 1e-6 * e) * (1 + 1e-4 * t)

    class CPop(R.BeamPopulationRate):
        def __init__(self, v): self.v = v
        def evaluate(self, e, n, t): return self.v

    class CBes(R.BeamEmissionPEC):
        def __init__(self, v): self.v = v
        def evaluate(self, e, n, t): return self.v * (1 + 1e-6 * e)

    class Gaunt(FreeFreeGauntFactor):
        def __init__(self, v): self.v = v
        def evaluate(self, z, te, wl): return self.v

    class Mock(AtomicData):
        def __init__(self, k):
            super().__init__()
            self.k = k
        def wavelength(self, ion, charge, transition):
            return 656.1 + 0.2 * (self.k - 1.0) + (0.0 if transition == (3, 2) else -170.0)
        def impact_excitation_pec(self, ion, charge, transition): return CPEC2(self.k * 1e-33 * h("exc", ion, charge))
        def recombination_pec(self, ion, charge, transition): return CRec(self.k * 6e-37 * h("rec", ion, charge))
        def thermal_cx_pec(self, de, dq, re, rq, transition): return CTcx(self.k * 3e-33 * h("tcx", de, dq, re, rq))
        def line_radiated_power_rate(self, ion, charge): return CLine(self.k * 1e-33 * h("plt", ion, charge))
        def continuum_radiated_power_rate(self, ion, charge): return CCont(self.k * 2e-34 * h("prb", ion, charge))
        def cx_radiated_power_rate(self, ion, charge): return CCxp(self.k * 3e-34 * h("prc", ion, charge))
        def beam_cx_pec(self, d, r, rq, transition): return [CBcx(1, self.k * 3e-30 * h("bcx", d, r, rq)), CBcx(2, self.k * 5e-30 * h("bcx2", d, r, rq))]
        def beam_stopping_rate(self, b, p, q): return CStop(self.k * 2e-14 * h("bms", b, p, q))
        def beam_population_rate(self, b, m, p, q): return CPop(self.k * 0.01 * h("bmp", b, m, p, q))
        def beam_emission_pec(self, b, p, q, transition): return CBes(self.k * 5e-32 * h("bme", b, p, q))
        def free_free_gaunt_factor(self): return Gaunt(self.k * 1.1e-5)
        def zeeman_structure(self, line, b_field=None): raise NotImplementedError
    _MOCK.update({1: Mock(1.0), 2: Mock(1.7)})
    return _MOCK


def _dist(n, t, v, mass, shape=(0.0, 0.0)):
    """Maxwellian with density n * (1 + a x + b x^2): non-uniform so that integration steps are observable."""
    from raysect.core import Vector3D
    from raysect.core.math.function.float import Arg3D
    from cherab.core.distribution import Maxwellian
    from cherab.core.math import Constant3D, ConstantVector3D
    a, b = shape
    dens = Constant3D(n) if (a == 0 and b == 0) else n * (1.0 + a * Arg3D('x') + b * Arg3D('x') * Arg3D('x'))
    return Maxwellian(dens, Constant3D(t), ConstantVector3D(Vector3D(*v)), mass)


def species_list(v):
    from cherab.core import Species
    from cherab.core.atomic import deuterium, carbon
    amu = 1.66053906660e-27
    if v == 3:
        return []                 # the empty composition
    if v == 1:
        return [Species(deuterium, 0, _dist(1e17, 10.0, (0, 0, 0), 2 * amu)),
                Species(deuterium, 1, _dist(1e19, 200.0, (1e4, 0, 0), 2 * amu, (0.3, 0.5))),
                Species(carbon, 5, _dist(3e16, 205.0, (0, 0, 0), 12 * amu)),
                Species(carbon, 6, _dist(2e17, 210.0, (0, 0, 0), 12 * amu))]
    return [Species(deuterium, 0, _dist(2e17, 12.0, (0, 0, 0), 2 * amu)),
            Species(deuterium, 1, _dist(0.8e19, 300.0, (0, 2e4, 0), 2 * amu, (0.2, 0.6))),
            Species(carbon, 5, _dist(5e16, 240.0, (0, 0, 0), 12 * amu)),
            Species(carbon, 6, _dist(1e17, 250.0, (0, 0, 0), 12 * amu))]


def xf(name, v):
    from raysect.core import translate, rotate_z, rotate_y
    if name == "P_xf":
        return translate(0, 0, 0) if v == 1 else translate(0.03, 0.02, 0) * rotate_z(5)
    if name == "N_xf":
        return translate(0, 0, 0) if v == 1 else translate(0.04, 0.03, 0.01)
    if name == "P_geomT":
        return None if v == 1 else rotate_z(20)
    if name == "B_xf":
        return translate(0.6, 0.0, 0.0) * rotate_y(-90) if v == 1 else translate(0.55, 0.05, 0.02) * rotate_y(-90) * rotate_z(10)
    if name == "L_xf":
        return translate(0.0, -0.6, 0.1) * rotate_y(0) * _rx(-90) if v == 1 else translate(0.02, -0.6, 0.12) * _rx(-90)
    raise KeyError(name)


def _rx(a):
    from raysect.core import rotate_x
    return rotate_x(a)


def plasma_models(v):
    from cherab.core.atomic import Line, deuterium, carbon
    from cherab.core.model import ExcitationLine, RecombinationLine, Bremsstrahlung, ThermalCXLine, TotalRadiatedPower
    da = Line(deuterium, 0, (3, 2))
    c5 = Line(carbon, 5, (8, 7))
    if v == 1:
        return [ExcitationLine(da), RecombinationLine(da), Bremsstrahlung(), ThermalCXLine(c5), TotalRadiatedPower(carbon, 5)]
    if v == 2:
        return [RecombinationLine(da), Bremsstrahlung()]
    return []


def beam_models(v, cxline):
    from cherab.core.atomic import Line, deuterium, carbon
    from cherab.core.model import BeamCXLine, BeamEmissionLine
    ln = Line(carbon, 5, (8, 7)) if cxline == 1 else Line(deuterium, 0, (3, 2))
    if v == 1:
        return [BeamCXLine(ln), BeamEmissionLine(Line(deuterium, 0, (3, 2)))]
    if v == 2:
        return [BeamCXLine(ln)]
    return []


def laser_profile(v, energy, length, radius):
    from cherab.core.model.laser import UniformEnergyDensity, ConstantBivariateGaussian
    L = 1.0 if length == 1 else 0.8
    r = 0.05 if radius == 1 else 0.1
    if v == 1:
        return UniformEnergyDensity(energy_density=1e3 * energy, laser_length=L, laser_radius=r)
    return ConstantBivariateGaussian(pulse_energy=1.0 * energy, pulse_length=1e-8, laser_radius=r, laser_length=L, stddev_x=0.02, stddev_y=0.03)


def laser_spectrum(v):
    from cherab.core.model.laser import ConstantSpectrum
    return ConstantSpectrum(1059.0, 1061.0, 1) if v == 1 else ConstantSpectrum(1058.0, 1062.0, 2)


def laser_models(v):
    from cherab.core.model.laser import SeldenMatobaThomsonSpectrum
    return [SeldenMatobaThomsonSpectrum()] if v == 1 else ([SeldenMatobaThomsonSpectrum(), SeldenMatobaThomsonSpectrum()] if v == 2 else [])


def integ(v, base=0.02):
    from raysect.optical.material.emitter.inhomogeneous import NumericalIntegrator
    return NumericalIntegrator(step=base if v == 1 else base * 1.5)


def geometry(v):
    from raysect.core import translate
    from raysect.primitive import Box
    from raysect.core import Point3D
    return Box(Point3D(-0.5, -0.5, -0.5), Point3D(0.5, 0.5, 0.5)) if v == 1 else Box(Point3D(-0.4, -0.5, -0.5), Point3D(0.5, 0.6, 0.5))


def bfield(v):
    from raysect.core import Vector3D
    from cherab.core.math import ConstantVector3D
    return ConstantVector3D(Vector3D(0, 0, 1.0)) if v == 1 else ConstantVector3D(Vector3D(0, 2.0, 0))


def edist(v):
    me = 9.1093837015e-31
    return _dist(1e19, 200.0, (0, 0, 0), me, (0.5, 0.8)) if v == 1 else _dist(1.5e19, 150.0, (0, 0, 0), me, (0.4, 0.7))


def element(v):
    from cherab.core.atomic import deuterium, hydrogen
    return deuterium if v == 1 else hydrogen


SCALAR = {"B_energy": ("energy", 50000.0, 60000.0), "B_power": ("power", 1e6, 2e6), "B_temp": ("temperature", 10.0, 20.0),
          "B_divx": ("divergence_x", 0.0, 0.5), "B_divy": ("divergence_y", 0.0, 0.7), "B_length": ("length", 1.2, 0.9),
          "B_sigma": ("sigma", 0.05, 0.07)}


class Scene:
    pass


def att_step(cfg):
    return (0.05 if cfg["A_step"] == 1 else 0.11) * (1.0 if cfg["B_att"] == 1 else 1.3)


def attenuator(cfg):
    from cherab.core.model import SingleRayAttenuator
    return SingleRayAttenuator(step=att_step(cfg), clamp_to_zero=cfg["A_clampZero"] == 2,
                               clamp_sigma=5.0 if cfg["A_clampSigma"] == 1 else 1.5)


def build(cfg):
    """Scene from scratch in configuration cfg."""
    from raysect.core import Node
    from raysect.optical import World
    from cherab.core import Plasma, Beam
    from cherab.core.laser import Laser
    m = mocks()
    s = Scene()
    s.cfg = dict(cfg)
    s.world = World()
    s.node = Node(parent=s.world, transform=xf("N_xf", cfg["N_xf"]))
    p = Plasma(parent=s.world if cfg["P_parent"] == 1 else s.node, transform=xf("P_xf", cfg["P_xf"]))
    p.b_field = bfield(cfg["P_bfield"])
    p.electron_distribution = edist(cfg["P_edist"])
    p.composition = species_list(cfg["P_comp"])
    p.atomic_data = m[cfg["P_adata"]]
    p.geometry = geometry(cfg["P_geom"])
    p.geometry_transform = xf("P_geomT", cfg["P_geomT"])
    p.integrator = integ(cfg["P_integ"])
    p.models = plasma_models(cfg["P_models"])
    s.plasma = p
    b = Beam(parent=s.world if cfg["B_parent"] == 1 else s.node, transform=xf("B_xf", cfg["B_xf"]))
    b.plasma = p
    b.atomic_data = m[cfg["B_adata"]]
    for k, (attr, v1, v2) in SCALAR.items():
        setattr(b, attr, v1 if cfg[k] == 1 else v2)
    b.element = element(cfg["B_element"])
    b.attenuator = attenuator(cfg)
    b.integrator = integ(cfg["B_integ"])
    b.models = beam_models(cfg["B_models"], cfg["M_cxline"])
    s.beam = b
    la = Laser(parent=s.world, transform=xf("L_xf", cfg["L_xf"]))
    la.plasma = p
    la.laser_profile = laser_profile(cfg["L_profile"], cfg["LP_energy"], cfg["LP_length"], cfg["LP_radius"])
    la.laser_spectrum = laser_spectrum(cfg["L_spectrum"])
    la.importance = 1.0 if cfg["L_importance"] == 1 else 2.0
    la.models = laser_models(cfg["L_models"])
    la.integrator = integ(cfg["L_integ"], 0.01)
    s.laser = la
    return s


def apply(s, a):
    """One public mutator call.  a = {'op': ..., 'p': param, 'v': value}.  Exceptions propagate."""
    op, p, v = a["op"], a.get("p"), a.get("v")
    via = a.get("via", "assign")
    m = mocks()
    P, B, L = s.plasma, s.beam, s.laser
    if op == "set" and via != "assign" and not (p == "P_comp" and via == "set"):
        # the other public front-ends reaching the same value
        if p == "P_comp":
            mgr, items = P.composition, species_list(v)
        elif p == "P_models":
            mgr, items = P.models, plasma_models(v)
        elif p == "B_models":
            mgr, items = B.models, beam_models(v, s.cfg["M_cxline"])
        elif p == "L_models":
            mgr, items = L.models, laser_models(v)
        else:
            raise KeyError((p, via))
        if via == "set":
            mgr.set(items)
        elif via == "clear_add":
            mgr.clear()
            for x in items:
                mgr.add(x)
        elif via == "add":        # composition: add replaces the species of the same element and charge
            for x in items:
                mgr.add(x)
        else:
            raise KeyError(via)
        s.cfg[p] = v
    elif op == "set":
        if p == "P_bfield": P.b_field = bfield(v)
        elif p == "P_edist": P.electron_distribution = edist(v)
        elif p == "P_comp": P.composition.set(species_list(v))
        elif p == "P_adata": P.atomic_data = m[v]
        elif p == "P_geom": P.geometry = geometry(v)
        elif p == "P_geomT": P.geometry_transform = xf("P_geomT", v)
        elif p == "P_integ": P.integrator = integ(v)
        elif p == "P_models": P.models = plasma_models(v)
        elif p == "P_xf": P.transform = xf("P_xf", v)
        elif p == "P_parent": P.parent = s.world if v == 1 else s.node
        elif p == "N_xf": s.node.transform = xf("N_xf", v)
        elif p in SCALAR: setattr(B, SCALAR[p][0], SCALAR[p][1] if v == 1 else SCALAR[p][2])
        elif p == "B_element": B.element = element(v)
        elif p == "B_adata": B.atomic_data = m[v]
        elif p == "B_att": B.attenuator = attenuator(dict(s.cfg, B_att=v))
        elif p == "A_step": B.attenuator.step = att_step(dict(s.cfg, A_step=v))
        elif p == "A_clampZero": B.attenuator.clamp_to_zero = (v == 2)
        elif p == "A_clampSigma": B.attenuator.clamp_sigma = 5.0 if v == 1 else 1.5
        elif p == "B_models": B.models = beam_models(v, s.cfg["M_cxline"])
        elif p == "B_integ": B.integrator = integ(v)
        elif p == "B_xf": B.transform = xf("B_xf", v)
        elif p == "B_parent": B.parent = s.world if v == 1 else s.node
        elif p == "M_cxline":
            from cherab.core.atomic import Line, deuterium, carbon
            from cherab.core.model import BeamCXLine
            for mod in B.models:
                if isinstance(mod, BeamCXLine):
                    mod.line = Line(carbon, 5, (8, 7)) if v == 1 else Line(deuterium, 0, (3, 2))
        elif p == "L_profile": L.laser_profile = laser_profile(v, s.cfg["LP_energy"], s.cfg["LP_length"], s.cfg["LP_radius"])
        elif p == "LP_energy":
            prof = L.laser_profile
            if hasattr(prof, "pulse_energy"): prof.pulse_energy = 1.0 * v
            else: prof.energy_density = 1e3 * v
        elif p == "LP_length": L.laser_profile.laser_length = 1.0 if v == 1 else 0.8
        elif p == "LP_radius": L.laser_profile.laser_radius = 0.05 if v == 1 else 0.1
        elif p == "L_spectrum": L.laser_spectrum = laser_spectrum(v)
        elif p == "L_models": L.models = laser_models(v)
        elif p == "L_integ": L.integrator = integ(v, 0.01)
        elif p == "L_importance": L.importance = 1.0 if v == 1 else 2.0
        elif p == "L_xf": L.transform = xf("L_xf", v)
        elif p == "B_plasma": B.plasma = P
        elif p == "L_plasma": L.plasma = P
        else: raise KeyError(p)
        s.cfg[p] = v
    elif op == "models_add":          # ModelManager.add / clear front-ends
        if p == "P_models":
            from cherab.core.model import Bremsstrahlung
            P.models.add(Bremsstrahlung())
    elif op == "observe":
        observe(s, kinds=None if a["k"] == "all" else [a["k"]])
    else:
        raise KeyError(op)


def _trace(world, origin, direction, lo, hi, bins):
    from raysect.core import Point3D, Vector3D
    from raysect.optical import Ray
    r = Ray(origin=Point3D(*origin), direction=Vector3D(*direction), min_wavelength=lo, max_wavelength=hi, bins=bins)
    return [float(x) for x in r.trace(world).samples]


OBS = ["plasma_ray", "beam_ray", "laser_ray", "beam_density", "beam_direction", "plasma_scalars", "laser_struct"]


def observe(s, kinds=None):
    """-> {kind: list of floats | 'raised-<Exc>'}"""
    out = {}
    for k in kinds or OBS:
        try:
            if k == "plasma_ray":
                out[k] = _trace(s.world, (-1.0, 0.31, 0.33), (1, 0, 0), 400.0, 700.0, 30)
            elif k == "beam_ray":
                out[k] = _trace(s.world, (0.2, -1.0, 0.0), (0, 1, 0), 400.0, 700.0, 30) + \
                    _trace(s.world, (0.25, 1.0, 0.04), (0, -1, 0.02), 640.0, 670.0, 30)
            elif k == "laser_ray":
                out[k] = _trace(s.world, (-1.0, -0.2, 0.1), (1, 0, 0), 1000.0, 1100.0, 20) + \
                    _trace(s.world, (0.03, 0.3, 1.0), (0, 0, -1), 1000.0, 1100.0, 20)
            elif k == "beam_density":
                out[k] = [float(s.beam.density(x, y, z)) for (x, y, z) in ((0, 0, 0.1), (0.02, 0.01, 0.5), (0.0, 0.0, 1.0), (0.09, 0.0, 0.3), (0.31, 0.0, 0.3), (0, 0, -0.1), (0, 0, 1.1))]
            elif k == "beam_direction":
                d = s.beam.direction(0.02, 0.03, 0.7)
                out[k] = [d.x, d.y, d.z]
            elif k == "laser_struct":
                g = s.laser.get_geometry()
                out[k] = [float(len(g))] + [float(getattr(x.material, "importance", -1.0)) for x in g]
            elif k == "plasma_scalars":
                out[k] = [float(s.plasma.z_effective(0.1, 0.1, 0.1)), float(s.plasma.ion_density(0.1, 0.1, 0.1))]
        except Exception as e:      # noqa: BLE001
            out[k] = "raised-" + type(e).__name__
    return out


def same(a, b):
    if isinstance(a, str) or isinstance(b, str):
        return a == b
    if len(a) != len(b):
        return False
    for x, y in zip(a, b):
        if math.isnan(x) and math.isnan(y):
            continue
        if abs(x - y) > 1e-11 * max(abs(x), abs(y)) + 1e-300:
            return False
    return True


REPOINT = ["B_plasma", "L_plasma"]
DEFAULT = {p: 1 for p in PARAMS + REPOINT}
