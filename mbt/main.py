"""bin/check <Cxx> <quick|thorough> | --replay <file> | --selftest <Cxx>"""
import importlib
import json
import os
import sys
import traceback

from . import core


def main(argv):
    os.environ.setdefault("PYTHONHASHSEED", "0")
    if not argv:
        print(__doc__)
        return 2
    seed = int(os.environ.get("VERIF_SEED", "0") or 0)
    try:
        if argv[0] == "--replay":
            data = json.loads(open(argv[1]).read())
            mod = importlib.import_module(f"mbt.{data['property'].lower()}")
            core.build_repo()
            rec = data.get("rec")
            out = None
            if isinstance(rec, dict):
                try:
                    out = getattr(mod, "replay_any", mod.replay)(rec, None)
                except (KeyError, TypeError):
                    out = None          # not a single-case record (a recorded trace, a whole-run check)
            if out is None:
                # the violation was found by a part of the check that has no single-case replay (recorded traces validated by
                # TLC, sweeps over a whole area or grid): the quick check of the property is re-run instead
                print(f"no single-case replay for this record: re-running the quick check of {data['property']}")
                return main([data["property"], "quick"])
            out = [x for x in out if "sig" in x]
            print(json.dumps(out, indent=1, default=str))
            return 1 if out else 0
        if argv[0] == "--selftest":
            mod = importlib.import_module(f"mbt.{argv[1].lower()}")
            core.build_repo()
            return mod.selftest()
        pid = argv[0].upper()
        tier = argv[1] if len(argv) > 1 else os.environ.get("VERIF_TIER", "quick")
        mod = importlib.import_module(f"mbt.{pid.lower()}")
        core.build_repo()
        # binding self-test first: a check whose conformance step cannot fail decides nothing
        import io, contextlib
        buf = io.StringIO()
        with contextlib.redirect_stdout(buf):
            try:
                st = mod.selftest()
            except core.MachineryError:
                raise
            except Exception as ex:          # noqa: BLE001  (real code runs inside the self-test)
                print("self-test raised", repr(ex)[:200])
                st = 2
        v = core.Verdict(pid, tier, seed)
        last = (buf.getvalue().strip().splitlines() or ["(no output)"])[-1][:160]
        v.notes["binding_selftest"] = ("passed: " if st == 0 else "FAILED: ") + last
        try:
            rc = mod.run(v)
        except core.MachineryError:
            raise
        except Exception as ex:          # noqa: BLE001
            # a part of the check that runs outside the per-case replays (end-to-end traces, sweeps) was aborted by an exception
            # raised inside the library: on the unchanged tree none is, so this is what the tree under test does
            tb = traceback.format_exc()
            frames = tb.split("Traceback")[-1]
            if "cherab/" in frames or 'File "cherab' in frames or "raysect/" in frames:
                v.violation(f"run-raised-{type(ex).__name__}@library", tb[-1800:], None)
                rc = v.finish(rule="the run was aborted by an exception raised inside the library; cases counted up to that point")
            else:
                raise
        if st != 0 and rc == 0:
            # the self-test executes real code too: if the tree under test breaks its known-good example the run above
            # reports that as a violation; a failed self-test with a clean run means the harness itself is broken
            print(buf.getvalue())
            raise core.MachineryError("binding self-test failed although the check found no violation")
        return rc
    except core.MachineryError as e:
        print(f"MACHINERY-FAILURE: {e}")
        return 2
    except Exception:
        traceback.print_exc()
        print("MACHINERY-FAILURE: unexpected exception")
        return 2


if __name__ == "__main__":
    sys.exit(main(sys.argv[1:]))
