"""bin/check <Cxx> <quick|thorough> | --replay <file> | --selftest <Cxx>"""
import importlib
import json
import os
import sys
import traceback

from . import core


def main(argv):
    os.environ.setdefault("PYTHONHASHSEED", "0")
    if not argv:
        print(__doc__)
        return 2
    seed = int(os.environ.get("VERIF_SEED", "0") or 0)
    try:
        if argv[0] == "--replay":
            data = json.loads(open(argv[1]).read())
            mod = importlib.import_module(f"mbt.{data['property'].lower()}")
            core.build_repo()
            out = getattr(mod, "replay_any", mod.replay)(data["rec"], None)
            print(json.dumps(out, indent=1, default=str))
            return 1 if out else 0
        if argv[0] == "--selftest":
            mod = importlib.import_module(f"mbt.{argv[1].lower()}")
            core.build_repo()
            return mod.selftest()
        pid = argv[0].upper()
        tier = argv[1] if len(argv) > 1 else os.environ.get("VERIF_TIER", "quick")
        mod = importlib.import_module(f"mbt.{pid.lower()}")
        core.build_repo()
        # binding self-test first: a check whose conformance step cannot fail decides nothing
        import io, contextlib
        buf = io.StringIO()
        with contextlib.redirect_stdout(buf):
            try:
                st = mod.selftest()
            except core.MachineryError:
                raise
            except Exception as ex:          # noqa: BLE001  (real code runs inside the self-test)
                print("self-test raised", repr(ex)[:200])
                st = 2
        v = core.Verdict(pid, tier, seed)
        last = (buf.getvalue().strip().splitlines() or ["(no output)"])[-1][:160]
        v.notes["binding_selftest"] = ("passed: " if st == 0 else "FAILED: ") + last
        rc = mod.run(v)
        if st != 0 and rc == 0:
            # the self-test executes real code too: if the tree under test breaks its known-good example the run above
            # reports that as a violation; a failed self-test with a clean run means the harness itself is broken
            print(buf.getvalue())
            raise core.MachineryError("binding self-test failed although the check found no violation")
        return rc
    except core.MachineryError as e:
        print(f"MACHINERY-FAILURE: {e}")
        return 2
    except Exception:
        traceback.print_exc()
        print("MACHINERY-FAILURE: unexpected exception")
        return 2


if __name__ == "__main__":
    sys.exit(main(sys.argv[1:]))
