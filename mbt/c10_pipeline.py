"""C10, pipelines.  Spec: spec/RTPipeline.tla (initialise / render / finalise protocol over repeated observations).

(R) every behaviour TLC explores is driven through a real RayTransferPipeline0D/1D/2D object by raysect's own pipeline
    protocol (initialise, pixel_processor().add_sample with real Spectrum objects, update, finalise); after every
    finalise the reported matrix must equal the spec's rows (mean of this observation's samples x sensitivity);
    after every initialise the matrix must be zero.  (E) one 0-D pipeline reused for three real observations of a
    RayTransferBox must report the same matrix as a fresh pipeline each time."""
import json
from fractions import Fraction

from . import core

BASIS = (1.0, 2.0, 3.0)


def _spectrum(val):
    from raysect.optical import Spectrum
    s = Spectrum(500.0, 501.0, 3)
    for i, b in enumerate(BASIS):
        s.samples[i] = val * b
    return s


def replay(rec, ctx):
    import numpy as np
    from cherab.tools.raytransfer import pipelines as P
    dim, kind = ctx["dim"] if ctx else rec["dim"], ctx["kind"] if ctx else rec["kind"]
    h = rec["h"]
    # the kind is accepted in any letter case ('Power' is what BolometerFoil.units says): spelled in lower case, capitalised or in
    # capitals depending on the history length - the pipeline is the same
    spelled = (kind, kind.capitalize(), kind.upper())[len(h) % 3]
    pipe = {0: P.RayTransferPipeline0D, 1: P.RayTransferPipeline1D, 2: P.RayTransferPipeline2D}[dim](kind=spelled)
    sens = float(rec["sens"])
    viol = []
    last = h[-1]["op"]

    def bad(what, detail):
        viol.append({"sig": f"pipeline{dim}d[{kind}]:{last}:{what}", "detail": f"{detail} | history {json.dumps(h)[:400]}"})

    def row(p):
        m = np.asarray(pipe.matrix)
        return m if dim == 0 else (m[p] if dim == 1 else m[p, 0])
    for e in h:
        if e["op"] == "initialise":
            if dim == 0:
                pipe.initialise(500.0, 501.0, 3, [None], True)
            elif dim == 1:
                pipe.initialise(2, e["ps"], 500.0, 501.0, 3, [None], True)
            else:
                pipe.initialise((2, 1), e["ps"], 500.0, 501.0, 3, [None], True)
        elif e["op"] == "render":
            pp = pipe.pixel_processor(0) if dim == 0 else (pipe.pixel_processor(e["p"], 0) if dim == 1 else pipe.pixel_processor(e["p"], 0, 0))
            for val in e["b"]:
                pp.add_sample(_spectrum(float(val)), sens)
            if dim == 0:
                pipe.update(0, pp.pack_results(), len(e["b"]))
            elif dim == 1:
                pipe.update(e["p"], 0, pp.pack_results())
            else:
                pipe.update(e["p"], 0, 0, pp.pack_results())
        else:
            pipe.finalise()
    rows = rec["rows"]
    rows = rows if isinstance(rows, list) else [rows[str(p)] for p in range(len(rows))]
    if last == "initialise":
        if np.any(np.asarray(pipe.matrix) != 0.0):
            bad("matrix-not-zero-after-initialise", str(np.asarray(pipe.matrix).tolist()))
    if rec["phase"] == "done":
        for p, (nu, de) in enumerate(rows):
            want = [float(Fraction(nu, de)) * b for b in BASIS]
            got = [float(x) for x in row(p)]
            if not core.close(got, want, rtol=1e-14, atol=0.0):
                bad("matrix-differs-from-mean-of-this-observation", f"pixel {p}: {got} vs {want} (= {nu}/{de} x basis)")
    return viol


def end_to_end():
    """one RayTransferPipeline0D reused for three observations vs a fresh pipeline per observation"""
    import numpy as np
    from raysect.core import translate, rotate_y
    from raysect.optical import World
    from raysect.optical.observer import SightLine
    from cherab.tools.raytransfer import RayTransferBox, RayTransferPipeline0D
    viol = []
    world = World()
    box = RayTransferBox(1.0, 1.0, 1.0, 4, 3, 5, parent=world, transform=translate(-0.5, -0.5, -0.5))
    box.step = 0.01
    shared = RayTransferPipeline0D(kind="radiance")
    sl = SightLine(pipelines=[shared], min_wavelength=500.0, max_wavelength=501.0, spectral_bins=box.bins, parent=world,
                   transform=translate(0.11, -0.07, -2.0) * rotate_y(4.0), pixel_samples=1, quiet=True)
    sl.quiet = True
    for k in range(3):
        sl.pipelines = [shared]
        sl.observe()
        reused = np.array(shared.matrix, float)
        fresh = RayTransferPipeline0D(kind="radiance")
        sl.pipelines = [fresh]
        sl.observe()
        if not np.allclose(reused, np.asarray(fresh.matrix), rtol=1e-12, atol=0.0):
            viol.append({"sig": "pipeline0d:reused-pipeline-differs-from-fresh-pipeline", "detail": f"observation {k + 1}: sum {reused.sum()} vs {np.asarray(fresh.matrix).sum()}"})
            break
    return viol


CFG = """SPECIFICATION Spec
CONSTANTS
  Dim = {dim}
  PKind = "{kind}"
  MaxHist = {depth}
INVARIANT ResultIsMeanOfThisObservation
PROPERTY InitialiseResets
ACTION_CONSTRAINT Emit
"""
SPEC_MUTANTS = [
    ("initialise-keeps-sample-count", "    /\\ den' = [p \\in Pixels |-> IF Dim = 0 THEN 0 ELSE ps]", "    /\\ den' = [p \\in Pixels |-> IF Dim = 0 THEN den[p] ELSE ps]"),
    ("initialise-keeps-matrix", "    /\\ num' = [p \\in Pixels |-> 0]\n    /\\ den' = [p \\in Pixels |-> IF Dim = 0", "    /\\ num' = num\n    /\\ den' = [p \\in Pixels |-> IF Dim = 0"),
    ("radiance-weighted-by-sensitivity", 'W == IF PKind = "power" THEN Sens ELSE 1', "W == Sens"),
]


def run_part(v):
    plan = [(0, "radiance", 7), (0, "power", 4), (1, "power", 4), (2, "radiance", 4)] if v.tier == "quick" else \
        [(0, "radiance", 8), (0, "power", 7), (1, "power", 8), (1, "radiance", 5), (2, "radiance", 8), (2, "power", 5)]
    for dim, kind, depth in plan:
        res = core.run_tlc("RTPipeline", CFG.format(dim=dim, kind=kind, depth=depth), workers=1, seed=v.seed, timeout=3000, tag=f"C10-pipe{dim}")
        core.tlc_must_pass(res, f"RTPipeline {dim}D")
        v.add_tlc(res, f"RTPipeline/{dim}d-{kind}-depth{depth}")
        edges = [r for r in res.records if "h" in r]
        per_obs = 3 if dim == 0 else 4          # initialise, one render per pixel (two pixels for 1-D / 2-D), finalise
        if not any(sum(1 for e in r["h"] if e["op"] == "finalise") >= (2 if depth >= 2 * per_obs else 1) for r in edges):
            raise core.MachineryError("vacuity: no behaviour with a completed (second) observation")
        if len(edges) > 40000:
            import random
            edges = random.Random(v.seed).sample(edges, 40000)
        out = core.fan_out("mbt.c10_pipeline", "replay", edges, {"dim": dim, "kind": kind})
        for r, vs in zip(edges, out):
            for x in vs:
                v.violation(x["sig"], x["detail"], dict(r, part="pipeline", dim=dim, kind=kind))
        v.add_cases(len(edges), keys=[f"pipe{dim}{kind}" + json.dumps(r["h"]) for r in edges])
    for x in end_to_end():
        v.violation(x["sig"], x["detail"], {"part": "pipeline-e2e"})
    if v.tier == "thorough":
        from . import specmut
        v.notes["pipeline_spec_mutants"] = specmut.audit("RTPipeline", CFG.format(dim=0, kind="radiance", depth=7).replace("ACTION_CONSTRAINT Emit\n", ""), SPEC_MUTANTS)


def selftest():
    h = [{"op": "initialise", "ps": 1}, {"op": "render", "p": 0, "b": [2]}, {"op": "finalise"}]
    rec = {"h": h, "phase": "done", "rows": [[2, 1]], "sens": 3, "dim": 0, "kind": "radiance"}
    good = replay(rec, None)
    bad = replay(dict(rec, rows=[[6, 1]]), None)
    return not good and bool(bad)
