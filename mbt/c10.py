"""C10 - ray-transfer matrices.  Spec: spec/RayTransfer.tla (midpoint marching as a state machine on integer lattices).

(R) for every behaviour TLC explores (segment, number of samples, voxel map) the real Cartesian / Cylindrical
    RayTransferIntegrator.integrate is called with the same end points and sample count; the per-source entries must
    equal count * |P0P1| / n (one dt per ambiguous sample), the Cartesian identity-map entries must be within two
    steps of the exact chord length, and an end-to-end Ray.trace through RayTransferBox / RayTransferCylinder with
    a transformed object must agree with the direct call.
"""
import json
import math
from fractions import Fraction

from . import core

GRID = {"cart": dict(shape=(3, 2, 2), steps=(2.0, 1.0, 3.0))}
CYL = [(4, 45, 2, 3), (4, 45, 1, 6), (1, 360, 2, 3), (2, 90, 1, 6), (3, 120, 1, 6), (2, 60, 2, 3)]      # the last two: an odd number of periods per turn (1 and 3)        # (NPHI, DPHI, NZc, DZc): incl. a single Z layer and the axisymmetric case


def material(kind, vmap, cyl=None, u=1.0):
    """the grid in units of u metres (angles stay angles)"""
    import numpy as np
    from cherab.tools.raytransfer import CartesianRayTransferEmitter, CylindricalRayTransferEmitter
    vm = np.array(vmap, dtype=np.int32)
    if kind == "cart":
        g = GRID[kind]
        return CartesianRayTransferEmitter(g["shape"], tuple(s * u for s in g["steps"]), voxel_map=vm)
    nphi, dphi, nz, dz = cyl
    return CylindricalRayTransferEmitter((2, nphi, nz), (2.0 * u, float(dphi), float(dz) * u), voxel_map=vm, rmin=1.0 * u)


def replay(rec, ctx):
    import numpy as np
    from raysect.core import Point3D, AffineMatrix3D
    from raysect.optical import Spectrum
    from cherab.tools.raytransfer.emitters import CartesianRayTransferIntegrator, CylindricalRayTransferIntegrator
    rec = dict(rec)
    for key in ("per_source", "chord"):          # TLC functions over 0..k arrive as JSON objects
        if isinstance(rec[key], dict):
            rec[key] = [rec[key][str(i)] for i in range(len(rec[key]))]
    kind, U, n = rec["kind"], rec["U"], rec["n"]
    p0 = [x / U for x in rec["p0"]]
    p1 = [x / U for x in rec["p1"]]
    length = math.dist(p0, p1)
    cyl = (ctx or rec).get("cyl")
    mat = material(kind, rec["voxel_map"], cyl)
    viol = []
    tag = f"{kind}:{rec['map']}" + (f":nphi{cyl[0]}-nz{cyl[2]}" if cyl else "")

    def bad(what, detail):
        viol.append({"sig": f"{tag}:{what}", "detail": f"{detail} | P0={p0} P1={p1} n={n}"})
    if mat.bins != rec["nsources"]:
        bad("number-of-sources-differs", f"{mat.bins} vs {rec['nsources']}")
        return viol
    # step chosen so that int(length / step) < min_samples = n  and  length >= 0.1 step
    integ = (CartesianRayTransferIntegrator if kind == "cart" else CylindricalRayTransferIntegrator)(step=length * 2.0, min_samples=n)
    sp = Spectrum(600.0, 601.0, mat.bins)
    ident = AffineMatrix3D()
    # the object sits displaced and rotated in the world: the integrator is handed the end points of the chord in world
    # coordinates together with the two transforms (RayTransfer.tla works in the object's own lattice coordinates)
    from raysect.core import translate, rotate_x, rotate_z
    p2w = translate(0.7, -1.3, 0.4) * rotate_z(33.0) * rotate_x(21.0)
    w2p = p2w.inverse()
    integ.integrate(sp, None, None, None, mat, Point3D(*p0).transform(p2w), Point3D(*p1).transform(p2w), w2p, p2w)
    got = [float(x) for x in sp.samples]
    # RayTransfer.tla works in lattice units: the same grid and ray in millimetres give the same entries in millimetres
    # (every fifth behaviour; cylindrical angles are unchanged)
    if (rec["p0"][0] * 7 + rec["p1"][1] * 3 + n) % 5 == 0:
        u = 1e-3
        mat_u = material(kind, rec["voxel_map"], cyl, u)
        integ_u = (CartesianRayTransferIntegrator if kind == "cart" else CylindricalRayTransferIntegrator)(step=length * 2.0 * u, min_samples=n)
        sp_u = Spectrum(600.0, 601.0, mat_u.bins)
        integ_u.integrate(sp_u, None, None, None, mat_u, Point3D(*[x * u for x in p0]), Point3D(*[x * u for x in p1]), ident, ident)
        got_u = [float(x) / u for x in sp_u.samples]
        if len(got_u) != len(got) or any(abs(a - b) > rec["amb"] * length / n + 1e-9 * length for a, b in zip(got_u, got)):
            bad("entries-depend-on-the-length-unit", f"in mm: {got_u}, in m: {got}")
    dt = length / n
    want = [c * dt for c in rec["per_source"]]
    slack = rec["amb"] * dt + 1e-12 * length
    # ambiguous samples (exactly on a face) may be booked to either neighbour: total within amb * dt, each entry within amb * dt
    if len(got) != len(want) or any(abs(g - w) > slack for g, w in zip(got, want)):
        bad("entries-differ-from-midpoint-marching", f"got {got}, spec counts {rec['per_source']} x dt {dt}")
    if rec["map"] == "identity" and abs(sum(got) - (sum(rec["per_source"]) + rec["amb"]) * dt) > 1e-12 * length and rec["amb"] == 0:
        bad("entries-do-not-sum-to-chord", f"{sum(got)} vs {length}")
    if rec["chord"]:
        for s, fr in enumerate(rec["chord"]):
            exact = float(Fraction(fr[0], fr[1])) * length
            if abs(got[s] - exact) > (2 + rec["amb"]) * dt + 1e-12 * length:      # samples lying on a face belong to either neighbour
                bad("cell-entry-more-than-two-steps-from-exact-chord", f"cell {s}: {got[s]} vs exact {exact} (dt {dt})")
                break
    return viol


def end_to_end(seed):
    """Ray.trace through the ready-made RayTransferBox / RayTransferCylinder objects (transformed) vs exact totals."""
    import numpy as np
    from raysect.core import Point3D, Vector3D, translate, rotate_z
    from raysect.optical import World, Ray
    from cherab.tools.raytransfer import RayTransferBox, RayTransferCylinder
    viol = []
    world = World()
    box = RayTransferBox(3.0, 2.0, 4.0, 3, 2, 4, step=0.01, parent=world, transform=translate(1.0, -0.5, 0.25) * rotate_z(30))
    ray = Ray(origin=Point3D(-5, 0.3, 1.7), direction=Vector3D(1, 0.02, 0.01).normalise(), min_wavelength=600.0, max_wavelength=601.0, bins=box.bins)
    s = ray.trace(world).samples
    # exact chord through the (shrunk) box by slab intersection in box coordinates
    inv = box.transform.inverse()
    o = ray.origin.transform(inv); d = ray.direction.transform(inv)
    t0, t1 = -1e30, 1e30
    for oo, dd, hi in ((o.x, d.x, 3.0), (o.y, d.y, 2.0), (o.z, d.z, 4.0)):
        a, b = (0 - oo) / dd, (hi - oo) / dd
        t0, t1 = max(t0, min(a, b)), min(t1, max(a, b))
    chord = max(0.0, t1 - t0)
    if abs(float(s.sum()) - chord) > 2e-4 + 0.02:
        viol.append({"sig": "box:ray-trace-total-differs-from-chord", "detail": f"{float(s.sum())} vs {chord}"})
    box.parent = None
    cyl = RayTransferCylinder(2.0, 3.0, 4, 3, radius_inner=0.5, n_polar=8, period=90.0, step=0.005, parent=world, transform=translate(0.2, 0.1, -1.0))
    rays = []
    for ang in (10.0, 100.0, 190.0, 280.0):          # the same chord rotated by the period must give the same matrix row
        a = math.radians(ang)
        o = Point3D(0.2 + 4 * math.cos(a) - 0.9 * math.sin(a), 0.1 + 4 * math.sin(a) + 0.9 * math.cos(a), 0.5)
        dvec = Vector3D(-math.cos(a), -math.sin(a), 0.05).normalise()
        r = Ray(origin=o, direction=dvec, min_wavelength=600.0, max_wavelength=601.0, bins=cyl.bins)
        rays.append(np.array(r.trace(world).samples))
    for k in range(1, 4):
        if np.abs(rays[k] - rays[0]).max() > 1e-6:
            viol.append({"sig": "cylinder:angular-period-not-respected", "detail": f"row for the chord rotated by {90 * k} degrees differs by {np.abs(rays[k] - rays[0]).max()}"})
            break
    return viol


CFG = """SPECIFICATION Spec
CONSTANTS
  Kind = "{kind}"
  MapKind = "{mapkind}"
  Ns = {ns}
  NPHI = {nphi}
  DPHI = {dphi}
  NZc = {nzc}
  DZc = {dzc}
INVARIANT SamplesAccounted
INVARIANT MergedIsSumOfCells
INVARIANT UnmappedContributeNothing
INVARIANT ChordAccuracy
INVARIANT EmitFinal
"""


def run(v):
    ns = "{2, 3, 7}" if v.tier == "quick" else "{2, 3, 5, 7, 16}"
    for kind, cyl in [("cart", None)] + [("cyl", c) for c in CYL]:
        for mk in ("identity", "mask", "merged"):
            if cyl and cyl != CYL[0] and mk != "identity" and v.tier == "quick":
                continue
            c4 = cyl or CYL[0]
            res = core.run_tlc("RayTransfer", CFG.format(kind=kind, mapkind=mk, ns=ns, nphi=c4[0], dphi=c4[1], nzc=c4[2], dzc=c4[3]), workers=1, seed=v.seed, tag=f"C10-{kind}-{mk}", timeout=3000)
            core.tlc_must_pass(res, f"RayTransfer {kind}/{mk}/{cyl}")
            v.add_tlc(res, f"RayTransfer/{kind}/{mk}/{cyl}")
            finals = [r for r in res.records if "per_source" in r]
            if len(finals) < 100 or not any(r["amb"] for r in finals) or not any(sum(1 for c in (r["per_source"].values() if isinstance(r["per_source"], dict) else r["per_source"]) if c) >= 2 for r in finals):
                raise core.MachineryError("vacuity: too few / too simple ray-transfer behaviours")
            out = core.fan_out("mbt.c10", "replay", finals, {"cyl": cyl})
            for r, vs in zip(finals, out):
                for x in vs:
                    v.violation(x["sig"], x["detail"], dict(r, cyl=cyl))
            v.add_cases(len(finals), keys=[json.dumps([kind, mk, cyl, r["p0"], r["p1"], r["n"]]) for r in finals])
            v.sample({k: x for k, x in finals[len(finals) // 2].items() if k != "voxel_map"})
    from . import c10_pipeline, c10_object
    c10_pipeline.run_part(v)
    c10_object.run_part(v)
    for x in end_to_end(v.seed):
        v.violation(x["sig"], x["detail"], None)
    v.add_cases(2, keys=["end-to-end-box", "end-to-end-cylinder"])
    v.assumptions += ["segments with lattice end points inside a 3x2x2 Cartesian grid and 2xNPHIxNZ cylindrical grids (4x45deg x 2 layers, 4x45deg x 1 layer, axisymmetric x 2 layers, 2x90deg x 1 layer); the integrators do no bounds checking, so only in-grid segments are behaviours",
                      "samples exactly on a cell face are counted as ambiguous (either neighbour accepted)", "exact chord comparison for the Cartesian identity map only; cylindrical arcs are not compared with exact chord lengths"]
    return v.finish(rule="one case = one TLC behaviour (segment, sample count, voxel map) replayed through the real integrator; distinct = distinct (kind, map, segment, n)")


def selftest():
    rec = {"kind": "cart", "map": "identity", "p0": [1, 1, 1], "p1": [11, 3, 11], "U": 2, "n": 2, "amb": 0, "nsources": 12,
           "per_source": [1, 0, 0, 0, 0, 0, 0, 0, 0, 0, 0, 1], "chord": [],
           "voxel_map": [[[0, 1], [2, 3]], [[4, 5], [6, 7]], [[8, 9], [10, 11]]]}
    good = replay(rec, None)
    bad = replay(dict(rec, per_source=[0, 1, 0, 0, 0, 0, 0, 0, 0, 0, 0, 1]), None)
    from . import c10_pipeline, c10_object
    ok = not good and bool(bad) and c10_pipeline.selftest() and c10_object.selftest()
    print("C10 selftest:", "ok" if ok else "FAILED", good[:1], bad[:1])
    return 0 if ok else 2
