"""C07 - OpenADAS provider policy.  Spec: spec/Provider.tla (decision table, one TLC state per row).

(R) every row TLC enumerates is executed on a real OpenADAS object over a repository populated through
    the (C06-checked) repository API: exception classes exact, grid-point values = stored table x unit
    conversion (CODATA constants from scipy, not from cherab), zero / finite / null-rate behaviour.
"""
import itertools
import json
import math
import os
import shutil
import tempfile

from . import core

os.environ.setdefault("HOME", str(core.OUT / "home"))

LAM = {"element": 656.1, "isotope": 486.0}
TR = (3, 2)


def _sp(kind):
    from cherab.core.atomic import elements as E
    return E.hydrogen if kind == "element" else E.deuterium


_DROP = ["none"]        # Provider.tla: drop - the axis along which the stored table falls by 1e-4 after its first node


def _f(axis, i):
    return 1e-4 if (_DROP[0] == axis and i >= 1) else 1.0


def _tab2(base, n, m, names=("ne", "te")):
    import numpy as np
    return np.array([[base * (1 + 0.3 * i + 0.07 * j) * _f(names[0], i) * _f(names[1], j) for j in range(m)] for i in range(n)])


def _tab3(base, n, m, k, names=("ne", "te", "td")):
    import numpy as np
    return np.array([[[base * (1 + 0.3 * i + 0.07 * j + 0.011 * l) * _f(names[0], i) * _f(names[1], j) * _f(names[2], l) for l in range(k)] for j in range(m)] for i in range(n)])


AX = {"ne": [1e18, 1e19, 1e20], "te": [1.0, 10.0, 100.0], "td": [2.0, 20.0, 200.0],
      "e": [1e3, 1e4, 1e5], "n": [1e18, 1e19, 1e20], "t": [10.0, 100.0, 1000.0],
      "eb": [1e3, 1e4, 1e5], "ti": [100.0, 1000.0, 5000.0], "ni": [1e18, 1e19, 1e20], "z": [1.0, 2.0, 4.0], "b": [1.0, 2.0, 4.0]}


# Provider.tla lattice = "physical": same middle nodes, first / last nodes that are not powers of ten
AX_PHYSICAL = {"ne": [1e15, 1e19, 2e21], "te": [0.2, 10.0, 5000.0], "td": [5.0, 20.0, 200.0],
               "e": [5e2, 1e4, 2e5], "n": [1e15, 1e19, 2e21], "t": [5.0, 100.0, 5000.0],
               "eb": [5e2, 1e4, 2e5], "ti": [20.0, 1000.0, 5000.0], "ni": [1e15, 1e19, 2e21], "z": [1.0, 2.0, 6.0], "b": [0.2, 2.0, 5.0]}
_LATTICE = ["decades"]


def axes_for(acc, shape):
    """shape = the axes stored as a single point (the middle one of the 3-point axis)"""
    ax = {k: list(v) for k, v in (AX_PHYSICAL if _LATTICE[0] == "physical" else AX).items()}
    for k in ([] if shape == "full" else shape):
        ax[k] = [ax[k][1]]
    return ax


def beam_table(base, ax):
    import numpy as np
    sen = _tab2(base, len(ax["e"]), len(ax["n"]), ("e", "n"))
    st = np.array([0.8 * _f("t", 0), 1.0 * _f("t", 1), 1.3 * _f("t", 2)]) * 2e-3
    return {"e": ax["e"], "n": ax["n"], "t": ax["t"], "sen": sen, "st": st, "eref": 1e4, "nref": 1e19, "tref": 100.0, "sref": float(st[1])}


def cx_table(base, ax, meta):
    import numpy as np
    q = lambda n, s, name: np.array([base * (1 + 3 * s) * (1 + s * i) * _f(name, i) for i in range(n)])      # noqa: E731  (pairwise distinct factors, also at index 0)
    return {"eb": ax["eb"], "ti": ax["ti"], "ni": ax["ni"], "z": ax["z"], "b": ax["b"], "qref": base * (1.1 + 0.05 * meta),
            "qeb": q(len(ax["eb"]), 0.4, "eb") * meta, "qti": q(len(ax["ti"]), 0.1, "ti"), "qni": q(len(ax["ni"]), 0.2, "ni"),
            "qz": q(len(ax["z"]), 0.15, "z"), "qb": q(len(ax["b"]), 0.05, "b")}


def populate(root, c):
    """Repository content for one case.  Rates under the element key (if present), a decoy with other numbers under the isotope key."""
    from cherab.openadas import repository as R
    acc = c["acc"]
    _DROP[0] = c.get("drop", "none")
    _LATTICE[0] = c.get("lattice", "decades")
    ax = axes_for(acc, c["shape"])
    el, iso = _sp("element"), _sp("isotope")
    store = {}     # what the element key holds (for the expected value)
    for sp, base, on in ((el, 1.0, c["present"]), (iso, 5.0, True)):
        if not on:
            continue
        t2 = {"ne": ax["ne"], "te": ax["te"], "rates": _tab2(base * 1e-14, 3, 3)}
        p2 = {"ne": ax["ne"], "te": ax["te"], "rate": _tab2(base * 1e-14, 3, 3)}
        if acc == "ionisation_rate":
            R.add_ionisation_rate(sp, 0, t2, repository_path=root)
        elif acc == "recombination_rate":
            R.add_recombination_rate(sp, 1, t2, repository_path=root)
        elif acc == "thermal_cx_rate":
            for dn in (el, iso):
                R.update_thermal_cx_rates({dn: {0: {sp: {1: dict(t2, rates=t2["rates"] * (1 if dn is el else 3))}}}}, repository_path=root)
        elif acc == "line_radiated_power_rate":
            R.add_line_power_rate(sp, 0, t2, repository_path=root)
        elif acc == "continuum_radiated_power_rate":
            R.update_continuum_power_rates({sp: {1: t2}}, repository_path=root)
        elif acc == "cx_radiated_power_rate":
            R.update_cx_power_rates({sp: {1: t2}}, repository_path=root)
        elif acc == "impact_excitation_pec":
            R.add_pec_excitation_rate(sp, 0, TR, p2, repository_path=root)
        elif acc == "recombination_pec":
            R.add_pec_recombination_rate(sp, 0, TR, p2, repository_path=root)
        elif acc == "thermal_cx_pec":
            p3 = {"ne": ax["ne"], "te": ax["te"], "td": ax["td"], "rate": _tab3(base * 1e-14, 3, 3, 3)}
            for dn in (el, iso):
                R.add_pec_thermal_cx_rate(dn, 0, sp, 1, TR, dict(p3, rate=p3["rate"] * (1 if dn is el else 3)), repository_path=root)
        elif acc == "beam_stopping_rate":
            for bm in (el, iso):
                R.add_beam_stopping_rate(bm, sp, 1, beam_table(base * 1e-14 * (1 if bm is el else 3), ax), repository_path=root)
        elif acc == "beam_population_rate":
            for bm in (el, iso):
                R.add_beam_population_rate(bm, 2, sp, 1, beam_table(base * 1e-2 * (1 if bm is el else 3), ax), repository_path=root)
        elif acc == "beam_emission_pec":
            # the rate is looked up by (beam element, target element); the *beam* species carries the wavelength
            for tg in (el, iso):
                R.add_beam_emission_rate(sp, tg, 1, TR, beam_table(base * 1e-15 * (1 if tg is el else 3), ax), repository_path=root)
        elif acc == "beam_cx_pec":
            for dn in (el, iso):
                for meta in (1, 2):
                    R.add_beam_cx_rate(dn, meta, sp, 1, TR, cx_table(base * 1e-15 * (1 if dn is el else 3), ax, meta), repository_path=root)
    # wavelengths of the line for element / isotope
    for kind in ("element", "isotope"):
        if c["wl"] == "both" or c["wl"] == kind + "_only":
            R.add_wavelength(_sp(kind), 0, TR, LAM[kind], repository_path=root)
    return ax


def call(adas, c):
    acc = c["acc"]
    s = _sp(c["species"])
    # the second species argument (donor / beam): same kind as the first, or the other kind
    s2 = s if c.get("species2", "same") == "same" else _sp("isotope" if c["species"] == "element" else "element")
    if acc in ("ionisation_rate", "line_radiated_power_rate"):
        return getattr(adas, acc)(s, 0)
    if acc in ("recombination_rate", "continuum_radiated_power_rate", "cx_radiated_power_rate"):
        return getattr(adas, acc)(s, 1)
    if acc == "thermal_cx_rate":
        return adas.thermal_cx_rate(s2, 0, s, 1)
    if acc in ("impact_excitation_pec", "recombination_pec"):
        return getattr(adas, acc)(s, 0, TR)
    if acc == "thermal_cx_pec":
        return adas.thermal_cx_pec(s2, 0, s, 1, TR)
    if acc == "beam_stopping_rate":
        return adas.beam_stopping_rate(s2, s, 1)
    if acc == "beam_population_rate":
        return adas.beam_population_rate(s2, 2, s, 1)
    if acc == "beam_emission_pec":
        return adas.beam_emission_pec(s, s2, 1, TR)       # the beam species (first) carries the wavelength
    if acc == "beam_cx_pec":
        return adas.beam_cx_pec(s2, s, 1, TR)
    raise KeyError(acc)


def table_value(acc, ax, idx, meta=1):
    """Stored value of the *element* entry at grid index tuple idx (before unit conversion)."""
    if acc in ("thermal_cx_pec",):
        return float(_tab3(1e-14, 3, 3, 3)[idx])
    if acc in ("beam_stopping_rate", "beam_population_rate", "beam_emission_pec"):
        base = {"beam_stopping_rate": 1e-14, "beam_population_rate": 1e-2, "beam_emission_pec": 1e-15}[acc]
        t = beam_table(base, ax)
        return float(t["sen"][idx[0], idx[1]] * t["st"][idx[2]] / t["sref"])
    if acc == "beam_cx_pec":
        t = cx_table(1e-15, ax, meta)
        return float(t["qeb"][idx[0]] * t["qti"][idx[1]] * t["qni"][idx[2]] * t["qz"][idx[3]] * t["qb"][idx[4]] / t["qref"] ** 4)
    return float(_tab2(1e-14, 3, 3)[idx])


def _mid(a):
    return [math.sqrt(a[i] * a[i + 1]) for i in range(len(a) - 1)] or list(a)


def arg_points(c, ax, axes):
    """-> list of (args tuple, grid index tuple or None)"""
    kind = c["arg"][0]
    grids = [ax[x] for x in axes]
    if kind == "grid":
        idxs = list(itertools.product(*[range(len(g)) for g in grids]))
        if len(idxs) > 40:
            keep = [i for i in idxs if sum(1 for k in i if k != 1) <= 1 or all(k in (0, 2) for k in i)]
            idxs = keep
        return [(tuple(g[i] for g, i in zip(grids, ix)), ix) for ix in idxs]
    inside = [tuple(_mid(g)[0] for g in grids), tuple(_mid(g)[-1] for g in grids)]
    if kind == "inside":
        return [(p, None) for p in inside]
    j = list(axes).index(c["arg"][1])
    out = []
    for p in inside[:1]:
        vals = {"nonpos": [0.0, -1.0], "below": [min(grids[j]) / 3.0, min(grids[j]) / 9.5], "above": [max(grids[j]) * 3.0, max(grids[j]) * 9.5]}[kind]
        for x in vals:
            q = list(p)
            q[j] = x
            out.append((tuple(q), None))
    return out


def replay(rec, ctx):
    from scipy import constants as K
    from cherab.openadas import OpenADAS
    c = rec["case"]
    exp = rec["outcome"]
    axes = rec.get("axes") or (ctx or {}).get("axes", {}).get(c["acc"])
    tmpbase = "/dev/shm" if os.path.isdir("/dev/shm") else str(core.OUT)
    root = tempfile.mkdtemp(prefix="c07-", dir=tmpbase)
    viol = []
    tag = f"{c['acc']}:{c['species']}"

    def bad(what, detail):
        viol.append({"sig": f"{tag}:{what}", "detail": detail + f" | case {json.dumps(c)}"})
    try:
        ax = populate(root, c)
        adas = OpenADAS(data_path=root, permit_extrapolation=c["extrap"], missing_rates_return_null=c["null"],
                        wavelength_element_fallback=c["fallback"])
        if c.get("before", "none") == "other_kind":
            # Provider.tla before = "other_kind": the same provider is asked for the other species kind first (result ignored)
            try:
                r0 = call(adas, dict(c, species="isotope" if c["species"] == "element" else "element"))
                for r_ in (r0 if isinstance(r0, list) else [r0]):
                    r_(*arg_points({"arg": ["grid"]}, ax, axes)[0][0])
            except Exception:                    # noqa: BLE001
                pass
        try:
            rate = call(adas, c)
        except Exception as ex:                  # noqa: BLE001
            name = type(ex).__name__
            if exp[0] == "raise" and exp[1] == "RuntimeError" and isinstance(ex, RuntimeError):
                return []
            if exp[0] == "unspecified":
                return [{"observation": f"{tag}:wavelength-missing-with-null-rates:{name}"}]
            want = "null-rate" if exp[0] == "null_zero" else ("raise-" + exp[1] if exp[0] == "raise" else "a-rate")
            bad(f"accessor-raised-{name}-expected-{want}", repr(ex)[:200])
            return viol
        if exp[0] == "raise" and exp[1] == "RuntimeError":
            bad("missing-data-not-RuntimeError", "accessor returned an object")
            return viol
        if exp[0] == "unspecified":
            return [{"observation": f"{tag}:wavelength-missing-with-null-rates:returned"}]
        rates = rate if isinstance(rate, list) else [rate]
        if c["acc"] == "beam_cx_pec" and exp[0] != "null_zero" and len(rates) != 2:
            bad("wrong-number-of-metastable-rates", str(len(rates)))
            return viol
        pts = arg_points(c, ax, axes) if exp[0] != "null_zero" else \
            [(p, None) for cc in ({"arg": ["grid"]}, {"arg": ["inside"]}, {"arg": ["above", axes[0]]}, {"arg": ["nonpos", axes[0]]}) for p, _ in arg_points(cc, axes_for(c["acc"], "full"), axes)[:5]]
        for mi, r in enumerate(rates):
            meta = getattr(r, "donor_metastable", mi + 1) if c["acc"] == "beam_cx_pec" else 1
            for args, ix in pts:
                try:
                    got = r(*args)
                    err = None
                except Exception as ex:          # noqa: BLE001
                    got, err = None, type(ex).__name__
                    if exp[0] == "raise" and exp[1] == "ValueError":
                        # the statement says the rate "raises" outside the range without naming the class: today it is a
                        # ValueError; any exception counts
                        err = "ValueError"
                k = exp[0]
                where = c["arg"][0] + ("." + c["arg"][1] if len(c["arg"]) > 1 else "")
                if k == "null_zero":
                    if err or got != 0.0:
                        bad("null-rate-not-zero", f"args {args}: {got} {err}")
                elif k == "raise":
                    if err != exp[1]:
                        bad(f"{where}:expected-{exp[1]}-got-{err or 'value'}", f"args {args}: {got}")
                elif err:
                    bad(f"{where}:raised-{err}", f"args {args}")
                elif k == "zero":
                    if got != 0.0:
                        bad(f"{where}:not-zero", f"args {args}: {got}")
                elif k == "finite_nonneg":
                    if not (math.isfinite(got) and got >= 0):
                        bad(f"{where}:not-finite-nonneg", f"args {args}: {got}")
                elif k == "table_value":
                    want = table_value(c["acc"], ax, ix, meta)
                    if exp[1][0] == "photon":
                        want *= K.h * K.c * 1e9 / LAM[exp[1][1]]
                    if not core.close(got, want, rtol=1e-9):
                        other = None
                        if exp[1][0] == "photon":
                            alt = want * LAM[exp[1][1]] / LAM["isotope" if exp[1][1] == "element" else "element"]
                            if core.close(got, alt, rtol=1e-9):
                                other = "used-the-other-species-wavelength"
                        if other is None and core.close(got, want * 5.0, rtol=1e-9):
                            other = "used-the-isotope-keyed-rates"
                        bad(f"grid:value-differs" + (":" + other if other else ""), f"args {args}: got {got!r}, stored table x conversion = {want!r}")
    finally:
        shutil.rmtree(root, ignore_errors=True)
    return viol


CFG = """SPECIFICATION Spec
INVARIANT Total
INVARIANT MissingPolicyUniform
INVARIANT IsotopeUsesElementRates
INVARIANT ExtrapOnlyOutside
INVARIANT DropIrrelevant
INVARIANT LatticeIrrelevant
INVARIANT BeforeIrrelevant
INVARIANT Species2Irrelevant
INVARIANT EmitCase
"""


def run(v):
    from cherab.openadas import OpenADAS
    from cherab.core import AtomicData
    res = core.run_tlc("Provider", CFG, workers=1, seed=v.seed, timeout=1800)
    core.tlc_must_pass(res, "Provider")
    v.add_tlc(res, "Provider")
    cases = [r for r in res.records if "case" in r]
    if len(cases) < 5000:
        raise core.MachineryError("vacuity: too few provider cases")
    accs = {r["case"]["acc"] for r in cases}
    # every rate accessor the class defines must be in the spec's table (an added accessor is a machinery error until modelled)
    defined = {n for n in dir(OpenADAS) if not n.startswith("_") and n in dir(AtomicData) and callable(getattr(OpenADAS, n))
               and getattr(OpenADAS, n) is not getattr(AtomicData, n, None) and n not in ("wavelength",)}
    v.notes["accessors_in_spec"] = sorted(accs)
    v.notes["accessors_defined_by_OpenADAS_not_in_spec"] = sorted(defined - accs)
    if v.tier == "quick":
        # seed-stable thinning of the flag combinations for argument classes that do not depend on them
        import random
        rng = random.Random(v.seed)
        keep = [r for r in cases if r["case"]["arg"][0] in ("grid", "nonpos") or not r["case"]["present"] or r["case"].get("drop", "none") != "none" or r["case"].get("species2") == "other" or r["case"].get("lattice", "decades") != "decades" or r["case"].get("before", "none") != "none" or rng.random() < 0.5]
        if sum(1 for r in keep if r["case"].get("drop", "none") != "none") < 60:
            raise core.MachineryError("vacuity: sharp-drop tables missing")
        cases = keep
    axes = {}
    import re
    txt = (core.SPEC / "Provider.tla").read_text()
    for m in re.finditer(r"(\w+)\s*\|->\s*\[axes \|-> <<([^>]*)>>", txt):
        axes[m.group(1)] = [x.strip().strip('"') for x in m.group(2).split(",")]
    out = core.fan_out("mbt.c07", "replay", cases, {"axes": axes})
    obs = {}
    for r, vs in zip(cases, out):
        for x in vs:
            if "observation" in x:
                obs[x["observation"]] = obs.get(x["observation"], 0) + 1
            else:
                v.violation(x["sig"], x["detail"], dict(r, axes=axes[r["case"]["acc"]]))
    v.add_cases(len(cases), keys=[json.dumps(r["case"], sort_keys=True) for r in cases])
    v.sample(cases[0])
    v.sample(cases[len(cases) // 2])
    v.notes["unspecified_rows_observed"] = obs
    v.assumptions += ["repository populated through the C06-checked API; 3-point axes (2-D cubic interpolators reject single-point axes), single-point axes only for the beam classes",
                      "a photon coefficient whose wavelength is missing while null rates are requested is not asserted (statement ambiguous), only recorded",
                      "h, c from scipy.constants (CODATA)"]
    return v.finish(rule="one case = one row of Provider.tla's decision table executed on a real OpenADAS object over a freshly populated repository; distinct = distinct rows")


def selftest():
    rec = {"case": {"acc": "ionisation_rate", "species": "isotope", "present": True, "wl": "both", "extrap": False, "null": False, "fallback": False,
                    "arg": ["grid"], "shape": []}, "outcome": ["table_value", ["none"]], "axes": ["ne", "te"]}
    good = replay(rec, None)
    bad = replay(dict(rec, outcome=["zero"]), None)
    ok = not any("sig" in x for x in good) and any("sig" in x for x in bad)
    print("C07 selftest:", "ok" if ok else "FAILED", good[:1], bad[:1])
    return 0 if ok else 2
