"""C01, notifier part.  Spec: spec/Notify.tla (registry of weakly referenced callbacks; add / remove / owner dies / notify).

(R) every edge TLC explores is replayed on a real cherab.core.utility.Notifier with real Python objects (bound methods
    of two owners, plain functions); owners really die (last reference dropped + gc).  Compared after every history:
    which callbacks are registered (is_present), which ran how often, the order of the last notify, and that dead
    entries are gone after a notify.  NotifyingList: each list method notifies exactly as often as the spec's table says."""
import gc
import json

from . import core


class _Own:
    def __init__(self, name, log):
        self.name, self.log = name, log

    def m1(self):
        self.log.append(["m", self.name, "m1"])

    def m2(self):
        self.log.append(["m", self.name, "m2"])


def _mkfunc(name, log):
    def f():
        log.append(["f", name])
    return f


def replay(rec, ctx):
    from cherab.core.utility import Notifier
    log = []
    objs = {}
    n = Notifier()
    h = rec["h"]
    last_order = []
    counts = {}

    def holder(cb):
        key = cb[1]
        if key not in objs:
            objs[key] = _mkfunc(key, log) if cb[0] == "f" else _Own(key, log)
        return objs[key]

    def cbobj(cb):
        o = holder(cb)
        return o if cb[0] == "f" else getattr(o, cb[2])
    # every owner / function exists from the start (alive = all)
    for e in h:
        if "cb" in e:
            holder(e["cb"])
    died = set()
    for e in h:
        if e["op"] == "add":
            n.add(cbobj(e["cb"]))
        elif e["op"] == "remove":
            n.remove(cbobj(e["cb"]))
        elif e["op"] == "die":
            objs.pop(e["x"], None)
            died.add(e["x"])
            gc.collect()
        elif e["op"] == "notify":
            del log[:]
            n.notify()
            last_order = [list(x) for x in log]
            for x in log:
                counts[json.dumps(x)] = counts.get(json.dumps(x), 0) + 1
    viol = []
    opn = h[-1]["op"]

    def bad(what, detail):
        viol.append({"sig": f"notifier:{opn}:{what}", "detail": f"{detail} | history {json.dumps(h)[:400]}"})
    want_present = [list(x) for x in rec["present"]]
    # is_present for every callback whose holder is alive
    for cb in ctx["callbacks"]:
        if cb[1] in died:
            continue
        got = n.is_present(cbobj(cb))
        if got != (list(cb) in want_present):
            bad("registration-differs", f"is_present({cb}) = {got}, spec registry {want_present}")
            break
    if opn == "notify":
        if last_order != [list(x) for x in rec["order"]]:
            bad("callbacks-run-differ", f"ran {last_order}, spec (live registered, registration order) {rec['order']}")
        held = getattr(n, "_callbacks_refs", None)       # an implementation detail: looked at only where it exists
        if held is not None and len(held) != len(want_present):
            bad("dead-references-kept", f"{len(held)} references held after notify, {len(want_present)} live callbacks")
    want_counts = {json.dumps(list(cb)): k for cb, k in rec["calls"]}
    if counts != want_counts:
        bad("run-counts-differ", f"{counts} vs spec {want_counts}")
    return viol


def replay_list(rec, ctx):
    """NotifyingList: number of notifications per list method"""
    from cherab.core.utility.notify import NotifyingList
    viol = []
    for op, want in rec["listops"].items():
        fired = []

        class K:
            def cb(self):
                fired.append(1)
        k = K()
        lst = NotifyingList([3, 1, 2])
        lst.notifier.add(k.cb)
        try:
            if op == "append": lst.append(5)
            elif op == "insert": lst.insert(1, 5)
            elif op == "extend": lst.extend([7, 8])
            elif op == "pop": lst.pop()
            elif op == "remove": lst.remove(1)
            elif op == "clear": lst.clear()
            elif op == "reverse": lst.reverse()
            elif op == "sort": lst.sort()
            elif op == "setitem": lst[0] = 9
            elif op == "delitem": del lst[0]
            elif op == "iadd": lst += [4]
            elif op == "imul": lst *= 2
            elif op == "getitem": lst[0]
            elif op == "len": len(lst)
            elif op == "index": lst.index(1)
            elif op == "count": lst.count(1)
            elif op == "copy": lst.copy()
            elif op == "contains": 1 in lst
            elif op == "iter": list(iter(lst))
            elif op == "add": lst + [1]
            elif op == "mul": lst * 2
            else:
                raise core.MachineryError(f"list operation {op} not known to the adapter")
        except core.MachineryError:
            raise
        except Exception as ex:          # noqa: BLE001
            viol.append({"sig": f"notifyinglist:{op}:raised-{type(ex).__name__}", "detail": repr(ex)[:200]})
            continue
        if len(fired) != want:
            viol.append({"sig": f"notifyinglist:{op}:notified-{len(fired)}-times-expected-{want}", "detail": ""})
        if op in ("iadd", "imul") and not hasattr(lst, "notifier"):
            viol.append({"sig": f"notifyinglist:{op}:result-is-no-longer-a-NotifyingList", "detail": ""})
    return viol


CFG = """SPECIFICATION Spec
CONSTANTS
  Owners = {{"o1", "o2"}}
  Methods = {{"m1", "m2"}}
  Funcs = {{"f1"}}
  MaxHist = {depth}
INVARIANT NoDuplicates
PROPERTY NotifyRunsLiveOnce
PROPERTY DeadForgotten
PROPERTY OnlyNotifyRuns
VIEW View
ACTION_CONSTRAINT Emit
"""
SPEC_MUTANTS = [
    ("add-registers-twice", "IF cb \\in Rng(reg) THEN reg ELSE Append(reg, cb)", "Append(reg, cb)"),
    ("notify-keeps-dead", "          /\\ reg' = live\n", "          /\\ reg' = reg\n"),
    ("notify-skips-after-dead", "LET live == SelectSeq(reg, Live) IN", "LET live == IF \\E i \\in 1..Len(reg) : ~Live(reg[i]) THEN SubSeq(reg, 1, (CHOOSE i \\in 1..Len(reg) : ~Live(reg[i]) /\\ \\A j \\in 1..(i - 1) : Live(reg[j])) - 1) ELSE reg IN"),
    ("remove-runs-callbacks", "              /\\ UNCHANGED <<alive, calls, order>> /\\ Log([op |-> \"remove\", cb |-> cb])", "              /\\ calls' = [calls EXCEPT ![cb] = @ + 1] /\\ UNCHANGED <<alive, order>> /\\ Log([op |-> \"remove\", cb |-> cb])"),
]


def run_part(v):
    depth = 4 if v.tier == "quick" else 5
    cfg = CFG.format(depth=depth)
    res = core.run_tlc("Notify", cfg, workers=1, seed=v.seed, timeout=3000, tag="C01-notify")
    core.tlc_must_pass(res, "Notify")
    v.add_tlc(res, "Notify")
    edges = [r for r in res.records if "h" in r]
    lists = [r for r in res.records if "listops" in r]
    ops = {}
    for r in edges:
        ops[r["h"][-1]["op"]] = ops.get(r["h"][-1]["op"], 0) + 1
    if set(ops) != {"add", "remove", "die", "notify"} or not any(r["order"] and len(r["order"]) < len([e for e in r["h"] if e["op"] == "add"]) for r in edges) or not lists:
        raise core.MachineryError(f"vacuity: Notify actions {ops}")
    if v.tier == "thorough" and len(edges) > 150000:
        import random
        edges = random.Random(v.seed).sample(edges, 150000)
    cbs = [["m", o, m] for o in ("o1", "o2") for m in ("m1", "m2")] + [["f", "f1"]]
    out = core.fan_out("mbt.c01_notify", "replay", edges, {"callbacks": cbs})
    for r, vs in zip(edges, out):
        for x in vs:
            v.violation(x["sig"], x["detail"], dict(r, part="notify", callbacks=cbs))
    for x in replay_list(lists[0], None):
        v.violation(x["sig"], x["detail"], dict(lists[0], part="notifylist"))
    v.add_cases(len(edges) + 1, keys=[json.dumps(r["h"]) for r in edges] + ["listops"])
    v.notes["notifier_edges_per_last_action"] = ops
    if v.tier == "thorough":
        from . import specmut
        v.notes["notifier_spec_mutants"] = specmut.audit("Notify", CFG.format(depth=4).replace("ACTION_CONSTRAINT Emit\n", ""), SPEC_MUTANTS)


def selftest():
    h = [{"op": "add", "cb": ["m", "o1", "m1"]}, {"op": "add", "cb": ["f", "f1"]}, {"op": "notify"}]
    rec = {"h": h, "present": [["m", "o1", "m1"], ["f", "f1"]], "order": [["m", "o1", "m1"], ["f", "f1"]], "calls": [[["m", "o1", "m1"], 1], [["f", "f1"], 1]]}
    ctx = {"callbacks": [["m", "o1", "m1"], ["m", "o1", "m2"], ["f", "f1"]]}
    good = replay(rec, ctx)
    bad = replay(dict(rec, order=[["f", "f1"], ["m", "o1", "m1"]]), ctx)
    return not good and bool(bad)
