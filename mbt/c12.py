"""C12 - equilibrium mapping.  Spec: spec/FluxMap.tla (exact values at the nodes of synthetic Solov'ev-type psi grids).

(R) a real EFITEquilibrium is built from each synthetic grid; at every node (and its rotated 3-D copies) psi_normalised,
    inside_lcfs, map2d/map3d of a linear profile, b_field, poloidal_vector, surface_normal, map_vector2d/3d are compared
    with the spec's exact rationals / integer directions (1e-9).
(E) on the bundled example and Generomak equilibria the same identities (orthonormal triad, n = p x t, B.n = 0, velocity
    components, psi_n >= 0, map = profile(psi_n) inside / outside value, axisymmetry) are evaluated with recorded inputs.
"""
import json
import math
from fractions import Fraction

from . import core

F0, BVAC_R, BVAC = 6.0, 4.0, 2.0
VT, VP, VN = (5.0, 1.0), (-3.0, 2.0), (1.5, 0.5)          # linear profiles a + b psi_n of the three velocity components
_EQ = {}


def fr(p):
    return float(Fraction(p[0], p[1]))


PSI_SCALE_EXPS = (0, -6, 3)        # FluxMap.tla: PsiScaleExps


def equilibrium(neg, A, B, off=0, pexp=0, Z0=0, C=0, rnodes=None):
    import numpy as np
    from raysect.core import Point2D
    from cherab.tools.equilibrium import EFITEquilibrium
    key = (neg, A, B, off, pexp, Z0, C, tuple(rnodes or ()))
    if key not in _EQ:
        r = np.arange(1.0, 8.0) if not rnodes else np.array(sorted(rnodes), dtype=float)
        z = np.arange(-3.0, 4.0)
        sgn = -1.0 if neg else 1.0
        ps = 10.0 ** pexp
        psi = sgn * (A * (r[:, None] - 4.0) ** 2 + B * (z[None, :] - Z0) ** 2 + C * (r[:, None] - 4.0) * (z[None, :] - Z0)) * ps
        if neg:
            psi = np.asfortranarray(psi)          # the flux grid column-major in memory for one sign, row-major for the other
        lcfs = np.array([[1.5, 6.5, 6.5, 1.5], [-2.5, -2.5, 2.5, 2.5]])
        limiter = np.array([[1.5, 6.5, 6.5, 4.5, 4.5, 1.5], [-2.5, -2.5, 0.5, 0.5, 2.5, 2.5]])
        _EQ[key] = EFITEquilibrium(r, z, psi, sgn * off / 2.0 * ps, sgn * (A * 4 + B + 2 * C) * ps, Point2D(4.0, float(Z0)), [], [], np.array([[0.0, 0.25, 0.5, 1.0], [F0, 1.125 * F0, 1.25 * F0, 1.5 * F0]]),
                                   np.array([[0.0, 1.0], [1.0, 2.0]]), BVAC_R, BVAC, lcfs, limiter, 0.0)
    return _EQ[key]


def lin(p, x):
    return p[0] + p[1] * x


def replay(rec, ctx):
    from raysect.core import Vector3D
    shape = dict(Z0=rec.get("Z0", 0), C=rec.get("C", 0), rnodes=rec.get("rnodes") if rec.get("stretch") else None)
    gx = rec.get("grad_exact", True)
    rmax = max(rec["rnodes"]) if rec.get("rnodes") else 7
    eq = equilibrium(rec["neg"], rec["A"], rec["B"], rec.get("off", 0), **shape)
    r, z = float(rec["r"]), float(rec["z"])
    viol = []
    tag = ("psi-negative" if rec["neg"] else "psi-positive") + ("[axis-offset]" if rec.get("off") else "") + ("[axis-above-midplane]" if shape["Z0"] else "") + ("[tilted]" if shape["C"] else "") + ("[stretched-grid]" if shape["rnodes"] else "")

    def bad(what, detail):
        viol.append({"sig": f"{tag}:{what}", "detail": f"{detail} | A={rec['A']} B={rec['B']} node=({r},{z}) angle={rec['angle']}"})
    psin = fr(rec["psin"])
    g = eq.psi_normalised(r, z)
    if not core.close(g, psin, rtol=1e-9, atol=1e-12) or g < 0:
        bad("psi_normalised-differs", f"{g!r} vs {psin!r}")
    inside = bool(eq.inside_lcfs(r, z))
    if inside != rec["inside"]:
        bad("inside_lcfs-differs", f"{inside} vs {rec['inside']}")
    # the same flux function in other units
    if rec["angle"] == [1, 0, 1]:
        for pe in PSI_SCALE_EXPS[1:]:
            eqs = equilibrium(rec["neg"], rec["A"], rec["B"], rec.get("off", 0), pe, **shape)
            gs = eqs.psi_normalised(r, z)
            bs, b0 = eqs.b_field(r, z), eq.b_field(r, z)
            ps_, p0 = eqs.poloidal_vector(r, z), eq.poloidal_vector(r, z)
            ok = not gx or core.close(gs, psin, rtol=1e-9, atol=1e-12) and bool(eqs.inside_lcfs(r, z)) == rec["inside"] \
                and core.close([bs.x, bs.z], [b0.x * 10.0 ** pe, b0.z * 10.0 ** pe], rtol=1e-9, atol=1e-12 * 10.0 ** pe * max(abs(b0.x), abs(b0.z), 1e-30)) \
                and core.close([ps_.x, ps_.y, ps_.z], [p0.x, p0.y, p0.z], rtol=1e-9, atol=1e-12)
            if not ok:
                bad(f"depends-on-the-unit-of-psi:1e{pe}", f"psi_n {gs!r} vs {psin!r}; B {bs} vs {b0} x 1e{pe}; poloidal vector {ps_} vs {p0}")
                break
    if "inside_limiter" in rec and bool(eq.inside_limiter(r, z)) != rec["inside_limiter"]:
        bad("inside_limiter-differs", f"{bool(eq.inside_limiter(r, z))} vs {rec['inside_limiter']}")
    # between the nodes: the normalised flux is never negative and the mapped profile is the profile at that flux
    if r < rmax and z < 3 and rec["angle"] == [1, 0, 1]:
        import numpy as _np
        arrprof = eq.map2d(_np.array([[0.0, 0.5, 1.0, 40.0], [3.0, 4.0, 5.0, 83.0]]), value_outside_lcfs=-7.0)
        for qa in (0.25, 0.5, 0.75):
            for qb in (0.0, 0.25, 0.5, 0.75):
                pr_, pz_ = r + qa, z + qb
                pn = eq.psi_normalised(pr_, pz_)
                if pn < 0:
                    bad("psi_normalised-negative-between-nodes", f"psi_n({pr_}, {pz_}) = {pn!r}")
                    break
                try:
                    got = arrprof(pr_, pz_)
                except Exception as ex:          # noqa: BLE001
                    bad(f"map2d[array]-raised-{type(ex).__name__}-between-nodes", f"at ({pr_}, {pz_}), psi_n = {pn!r}")
                    break
                want_ = (3.0 + 2.0 * pn) if eq.inside_lcfs(pr_, pz_) else -7.0
                if not core.close(got, want_, rtol=1e-9, atol=1e-9):
                    bad("map2d[array]-not-profile-of-psi_n-between-nodes", f"at ({pr_}, {pz_}): {got!r} vs {want_!r}")
                    break
            else:
                continue
            break
    prof = lambda x: 3.0 + 2.0 * x          # noqa: E731
    import numpy as np
    want = fr(rec["map2d"])
    # the linear profile as a function, as a 2 x 4 array and as a 2 x 2 array (the smallest table: two points)
    for name, f in (("function", eq.map2d(prof, value_outside_lcfs=-7.0)), ("array", eq.map2d(np.array([[0.0, 0.5, 1.0, 1.5], [3.0, 4.0, 5.0, 6.0]]), value_outside_lcfs=-7.0)),
                    ("array2x2", eq.map2d(np.array([[0.0, 1.5], [3.0, 6.0]]), value_outside_lcfs=-7.0))):
        if psin > 1.5 and name != "function":
            continue
        got = f(r, z)
        if not core.close(got, want, rtol=1e-9, atol=1e-12):
            bad(f"map2d[{name}]-differs", f"{got!r} vs {want!r}")
    c, s, h = rec["angle"]
    x, y = r * c / h, r * s / h
    got3 = eq.map3d(prof, value_outside_lcfs=-7.0)(x, y, z)
    # a node with psi_n = 1 exactly lies on the LCFS: at a rotated 3-D copy sqrt(x^2 + y^2) may round to either side of it
    on_edge = rec["psin"][0] == rec["psin"][1] and rec["angle"] != [1, 0, 1]
    if not core.close(got3, want, rtol=1e-9, atol=1e-12) and not (on_edge and got3 == -7.0):
        bad("map3d-differs", f"{got3!r} at toroidal angle (cos, sin) = ({c}/{h}, {s}/{h}) vs {want!r}")
    if not gx:
        # a node of the stretched axis whose neighbours are not equally far away: the gradient is not exact there
        bt_ = eq.b_field(r, z).y
        if not core.close(bt_, fr(rec["bt_r"]) / r, rtol=1e-9):
            bad("toroidal-field-differs", f"{bt_!r}")
        return viol
    # field and basis
    pr, pz = rec["grad"]
    b = eq.b_field(r, z)
    bt = fr(rec["bt_r"]) / r            # F(psi_n) = 6 + 3 psi_n inside, the vacuum value outside
    if not core.close([b.x, b.y, b.z], [-pz / r, bt, pr / r], rtol=1e-9, atol=1e-12):
        bad("b_field-differs", f"{b} vs {(-pz / r, bt, pr / r)}")
    p = eq.poloidal_vector(r, z)
    n = eq.surface_normal(r, z)
    if rec["degenerate"]:
        if (p.x, p.y, p.z) != (0.0, 0.0, 0.0) or (n.x, n.y, n.z) != (0.0, 0.0, 0.0):
            bad("basis-at-magnetic-axis-not-zero", f"{p} {n}")
        pu = nu = (0.0, 0.0, 0.0)
    else:
        ln = math.hypot(rec["pol"][0], rec["pol"][2])
        pu = tuple(q / ln for q in rec["pol"])
        nu = tuple(q / ln for q in rec["nrm"])
        if not core.close([p.x, p.y, p.z], list(pu), rtol=1e-9, atol=1e-12):
            bad("poloidal_vector-differs", f"{p} vs {pu}")
        if not core.close([n.x, n.y, n.z], list(nu), rtol=1e-9, atol=1e-12):
            bad("surface_normal-differs", f"{n} vs {nu}")
    # the vectors handed out belong to the caller: kept, they still are the field / directions of this node after the
    # equilibrium was asked about another point
    kept = {"b_field": (b, (b.x, b.y, b.z)), "poloidal_vector": (p, (p.x, p.y, p.z)), "surface_normal": (n, (n.x, n.y, n.z))}
    r2, z2 = (r + 1.0 if r + 1.0 <= rmax else r - 1.0), (z + 1.0 if z < 3 else z - 1.0)
    eq.b_field(r2, z2), eq.poloidal_vector(r2, z2), eq.surface_normal(r2, z2)
    for name, (vec, was) in kept.items():
        if (vec.x, vec.y, vec.z) != was:
            bad(f"{name}-returned-earlier-changes-with-later-evaluations", f"{was} became {(vec.x, vec.y, vec.z)} after evaluating at ({r2}, {z2})")
    # mapped velocity: prescribed toroidal / poloidal / normal components, zero outside
    tor = lambda q: lin(VT, q); pol = lambda q: lin(VP, q); nrm = lambda q: lin(VN, q)     # noqa: E731,E702
    v2 = eq.map_vector2d(tor, pol, nrm)(r, z)
    if rec["inside"]:
        tab = lambda pr_: np.array([[0.0, 1.0], [lin(pr_, 0.0), lin(pr_, 1.0)]])     # noqa: E731  the same linear profiles as two-point tables
        v2t = eq.map_vector2d(tab(VT), tab(VP), tab(VN))(r, z)
        if not core.close([v2t.x, v2t.y, v2t.z], [v2.x, v2.y, v2.z], rtol=1e-9, atol=1e-9):
            bad("map_vector2d[array2x2]-differs-from-function-profiles", f"{v2t} vs {v2}")
    if rec["inside"]:
        vt, vp, vn = lin(VT, psin), lin(VP, psin), lin(VN, psin)
        exp = (vp * pu[0] + vn * nu[0], vt, vp * pu[2] + vn * nu[2])
    else:
        exp = (0.0, 0.0, 0.0)
    if not core.close([v2.x, v2.y, v2.z], list(exp), rtol=1e-9, atol=1e-9):
        bad("map_vector2d-differs", f"{v2} vs {exp}" + (" (one in-plane field component is zero)" if (pr == 0) != (pz == 0) else ""))
    v3 = eq.map_vector3d(tor, pol, nrm)(x, y, z)
    # one mapped function with a non-zero value outside the LCFS, evaluated at three toroidal angles in turn:
    # inside the prescribed components, outside the given (r, toroidal, z) vector, both rotated with the point's own angle
    out_vec = (1.5, -2.0, 0.25)
    f3 = eq.map_vector3d(tor, pol, nrm, value_outside_lcfs=Vector3D(*out_vec))
    on_lcfs = rec["psin"][0] == rec["psin"][1]        # psi_n = 1 exactly: which side the blend takes is not specified
    for (c2, s2, h2) in ([] if on_lcfs else (rec["angle"], [3, 4, 5], [-4, 3, 5])):
        co2, si2 = c2 / h2, s2 / h2
        w3 = f3(r * co2, r * si2, z)
        base = exp if rec["inside"] else out_vec
        e3 = (base[0] * co2 - base[1] * si2, base[0] * si2 + base[1] * co2, base[2])
        if not core.close([w3.x, w3.y, w3.z], list(e3), rtol=1e-9, atol=1e-9):
            bad("map_vector3d-with-outside-value-differs", f"{w3} vs {e3} at toroidal angle (cos, sin) = ({c2}/{h2}, {s2}/{h2})" + ("" if rec["inside"] else " (outside the LCFS)"))
            break
    co, si = c / h, s / h
    exp3 = (exp[0] * co - exp[1] * si, exp[0] * si + exp[1] * co, exp[2])
    if not core.close([v3.x, v3.y, v3.z], list(exp3), rtol=1e-9, atol=1e-9) and not (on_edge and (v3.x, v3.y, v3.z) == (0.0, 0.0, 0.0)):
        bad("map_vector3d-differs", f"{v3} vs {exp3}")
    return viol


def identities(which, n, seed):
    """E: the spec's identities on a real bundled equilibrium, with recorded inputs (psi_n, B, inside) binding the variables."""
    import random
    from raysect.core import Vector3D
    if which == "example":
        from cherab.tools.equilibrium import example_equilibrium
        eq = example_equilibrium()
    else:
        from cherab.generomak.equilibrium import load_equilibrium
        eq = load_equilibrium()
    rng = random.Random(seed)
    viol = []
    prof = lambda x: 3.0 + 2.0 * x        # noqa: E731
    m2 = eq.map2d(prof, value_outside_lcfs=-7.0)
    m3 = eq.map3d(prof, value_outside_lcfs=-7.0)
    mv = eq.map_vector2d(lambda q: lin(VT, q), lambda q: lin(VP, q), lambda q: lin(VN, q))
    mv3 = eq.map_vector3d(lambda q: lin(VT, q), lambda q: lin(VP, q), lambda q: lin(VN, q))
    (r0, r1), (z0, z1) = eq.r_range, eq.z_range

    def bad(what, detail):
        viol.append({"sig": f"{which}:{what}", "detail": detail})
    for _ in range(n):
        r = rng.uniform(r0 + 1e-3, r1 - 1e-3)
        z = rng.uniform(z0 + 1e-3, z1 - 1e-3)
        psin = eq.psi_normalised(r, z)
        inside = bool(eq.inside_lcfs(r, z))
        if psin < 0:
            bad("psi_normalised-negative", f"({r},{z})")
        want = prof(psin) if inside else -7.0
        if not core.close(m2(r, z), want, rtol=1e-12, atol=1e-12):
            bad("map2d-not-profile-of-psin", f"({r},{z}): {m2(r, z)} vs {want}")
        a = rng.uniform(0, 2 * math.pi)
        if not core.close(m3(r * math.cos(a), r * math.sin(a), z), want, rtol=1e-9, atol=1e-9):
            bad("map3d-not-axisymmetric", f"({r},{z}) angle {a}")
        b = eq.b_field(r, z)
        p = eq.poloidal_vector(r, z)
        nn = eq.surface_normal(r, z)
        if b.x == 0 and b.z == 0:
            continue
        t = Vector3D(0, 1, 0)
        if abs(p.length - 1) > 1e-12 or abs(nn.length - 1) > 1e-12 or abs(p.dot(nn)) > 1e-12 or abs(p.dot(t)) > 1e-12:
            bad("triad-not-orthonormal", f"({r},{z})")
        c = p.cross(t)
        if abs(c.x - nn.x) + abs(c.y - nn.y) + abs(c.z - nn.z) > 1e-12:
            bad("normal-is-not-poloidal-cross-toroidal", f"({r},{z})")
        if abs(b.dot(nn)) > 1e-12 * max(1.0, b.length) or abs(p.x * b.z - p.z * b.x) > 1e-12 * max(1.0, b.length):
            bad("field-not-in-the-flux-surface-or-poloidal-vector-not-along-field", f"({r},{z})")
        v = mv(r, z)
        if inside:
            comps = (v.dot(t), v.dot(p), v.dot(nn))
            exp = (lin(VT, psin), lin(VP, psin), lin(VN, psin))
            if not core.close(list(comps), list(exp), rtol=1e-9, atol=1e-9):
                bad("mapped-velocity-components-differ", f"({r},{z}): {comps} vs {exp}")
        elif (v.x, v.y, v.z) != (0.0, 0.0, 0.0):
            bad("mapped-velocity-outside-lcfs-not-default", f"({r},{z})")
        w = mv3(r * math.cos(a), r * math.sin(a), z)
        e3 = (v.x * math.cos(a) - v.y * math.sin(a), v.x * math.sin(a) + v.y * math.cos(a), v.z)
        if not core.close([w.x, w.y, w.z], list(e3), rtol=1e-9, atol=1e-9):
            bad("mapped-velocity-not-rotated-with-toroidal-angle", f"({r},{z}) angle {a}")
    return viol


def _ident(args, ctx):
    return identities(args[0], args[1], args[2])


CFG = """SPECIFICATION Spec
CONSTANTS
  Negs = {{TRUE, FALSE}}
  Deep = {deep}
INVARIANT PsiNNonNegative
INVARIANT Orthogonal
INVARIANT NormalIsPolCrossTor
INVARIANT FieldHasNoNormalComponent
INVARIANT SameLength
INVARIANT UpDownSymmetric
INVARIANT PositiveDefinite
INVARIANT EmitCase
"""


def run(v):
    res = core.run_tlc("FluxMap", CFG.format(deep="TRUE" if v.tier == "thorough" else "FALSE"), workers=1, seed=v.seed, timeout=3000)
    core.tlc_must_pass(res, "FluxMap")
    v.add_tlc(res, "FluxMap")
    cases = [r for r in res.records if "psin" in r]
    if len(cases) < 2000 or not any(r["inside"] for r in cases) or not any(not r["inside"] and r["psin"][0] <= r["psin"][1] for r in cases) or not any(r["degenerate"] for r in cases):
        raise core.MachineryError("vacuity: flux-map cases missing")
    cases.sort(key=lambda r: (r["off"], r["neg"], r["A"], r["B"], r["Z0"], r["C"], r["stretch"]))
    if not any(r["stretch"] and r["grad_exact"] and r["r"] in (6, 8) for r in cases):
        raise core.MachineryError("vacuity: no stretched-grid node with an exact gradient")
    out = core.fan_out("mbt.c12", "replay", cases, None, chunk=147)
    for r, vs in zip(cases, out):
        for x in vs:
            v.violation(x["sig"], x["detail"], r)
    n = 300 if v.tier == "quick" else 5000
    out = core.fan_out("mbt.c12", "_ident", [("example", n, v.seed), ("generomak", n, v.seed + 1)], None, chunk=1)
    for vs in out:
        for x in vs:
            v.violation(x["sig"], x["detail"], None)
    v.add_cases(len(cases) + 2 * n, keys=[json.dumps([r["stretch"], r["Z0"], r["C"], r["off"], r["neg"], r["A"], r["B"], r["r"], r["z"], r["angle"]]) for r in cases])
    v.sample(next(r for r in cases if r["inside"] and not r["degenerate"] and r["z"]))
    v.notes["random_points_per_bundled_equilibrium"] = n
    v.assumptions += ["synthetic quadratic psi on integer grids: cubic interpolation and second-order gradients are exact at the nodes where everything is compared",
                      "bundled equilibria: identities with recorded inputs only (psi interpolation accuracy and the data files themselves are not checked)"]
    return v.finish(rule="one case = one (synthetic equilibrium, grid node, toroidal angle) row of FluxMap.tla compared on a real EFITEquilibrium, plus seeded random points on the bundled equilibria checked against the spec identities")


def selftest():
    rec = {"neg": False, "A": 1, "B": 1, "r": 5, "z": 1, "angle": [1, 0, 1], "psin": [2, 5], "inside": True, "map2d": [19, 5], "grad": [2, 2],
           "pol": [-2, 0, 2], "nrm": [-2, 0, -2], "degenerate": False, "bt_r": [36, 5]}
    good = replay(rec, None)
    bad = replay(dict(rec, map2d=[18, 5]), None)
    ok = not good and bool(bad)
    print("C12 selftest:", "ok" if ok else "FAILED", good[:1], bad[:1])
    return 0 if ok else 2
