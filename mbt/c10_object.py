"""C10, ray-transfer objects.  Spec: spec/RTObject.tla (voxel map / mask setters, bins, inverted map).

(R) every history TLC explores is replayed on a real RayTransferBox and RayTransferCylinder (2 x 2 x 1 cells): after it
    voxel_map, mask, bins and invert_voxel_map() must equal the spec's, wrong-shaped arrays must be refused, and a ray
    traced through all four cells must be booked exactly as by an object constructed with the final map."""
import json

from . import core

SHAPE = (2, 2, 1)


def _obj(kind, vm=None):
    from raysect.optical import World
    from cherab.tools.raytransfer import RayTransferBox, RayTransferCylinder
    w = World()
    if kind == "box":
        o = RayTransferBox(2.0, 2.0, 1.0, 2, 2, 1, step=0.01, parent=w, voxel_map=vm)
    else:
        o = RayTransferCylinder(2.0, 1.0, 2, 1, radius_inner=0.0, n_polar=2, period=360.0, step=0.01, parent=w, voxel_map=vm)
    return w, o


def _arr(m, dtype):
    import numpy as np
    m = m if isinstance(m, list) else [m[str(i)] for i in range(1, len(m) + 1)]
    return np.array(m, dtype=dtype).reshape(SHAPE)


def _trace(world, obj):
    from raysect.core import Point3D, Vector3D
    from raysect.optical import Ray
    out = []
    for o, d in (((-1.0, 0.3, 0.4), (1, 0.31, 0.01)), ((0.4, -1.0, 0.6), (0.27, 1, -0.02)), ((1.7, 3.0, 0.5), (-0.4, -1, 0.0))):
        r = Ray(origin=Point3D(*o), direction=Vector3D(*d).normalise(), min_wavelength=600.0, max_wavelength=601.0, bins=max(obj.bins, 1))
        out.append([float(x) for x in r.trace(world).samples])
    return out


def replay(rec, ctx):
    import numpy as np
    viol = []
    h = rec["h"]
    last = h[-1]["op"]
    for kind in ("box", "cylinder"):
        def bad(what, detail):
            viol.append({"sig": f"rtobject[{kind}]:{last}:{what}", "detail": f"{detail} | history {json.dumps(h)[:300]}"})
        world, obj = _obj(kind)
        outcome = "ok"
        for e in h:
            outcome = "ok"
            try:
                if e["op"] == "read":
                    obj.bins, obj.mask, obj.voxel_map, obj.invert_voxel_map()
                    if obj.bins > 0:
                        _trace(world, obj)          # the object is used (rays traced through it) before the next change
                elif e["m"] == "wrong-shape":
                    setattr(obj, e["op"], np.zeros((2, 3, 1), dtype=(np.int32 if e["op"] == "voxel_map" else bool)))
                elif e["op"] == "voxel_map":
                    # the map as int32 or as numpy's default int64 (the object converts), alternating with the history length
                    vm_ = _arr(e["m"], np.int32 if len(h) % 2 else np.int64)
                    obj.voxel_map = np.asfortranarray(vm_) if len(h) % 3 == 0 else vm_        # column-major in memory now and then
                else:
                    obj.mask = _arr(e["m"], bool if len(h) % 2 else np.uint8)
            except ValueError:
                outcome = "ValueError"
            except Exception as ex:          # noqa: BLE001
                outcome = "raised-" + type(ex).__name__
        if outcome != rec["outcome"]:
            bad(f"outcome-{outcome}-expected-{rec['outcome']}", "")
            if outcome.startswith("raised"):
                continue
        want = _arr(rec["map"], np.int32)
        if not np.array_equal(np.asarray(obj.voxel_map), want):
            bad("voxel_map-differs", f"{np.asarray(obj.voxel_map).ravel().tolist()} vs {want.ravel().tolist()}")
            continue
        if obj.bins != rec["bins"]:
            bad("bins-differ", f"{obj.bins} vs {rec['bins']}")
        if not np.array_equal(np.asarray(obj.mask), want > -1):
            bad("mask-is-not-map-greater-than-minus-one", str(np.asarray(obj.mask).ravel().tolist()))
        inv = obj.invert_voxel_map()
        winv = rec["inv"] if isinstance(rec["inv"], list) else [rec["inv"][str(i)] for i in range(len(rec["inv"]))]
        got_inv = [sorted(int(np.ravel_multi_index(ix, SHAPE)) + 1 for ix in zip(*cells)) for cells in inv]
        if got_inv != [sorted(x) for x in winv]:
            bad("inverted-map-differs", f"{got_inv} vs {winv}")
        # what the integrator books follows the current map: same as an object constructed with it
        w2, fresh = _obj(kind, want.copy())
        if obj.bins > 0 and _trace(world, obj) != _trace(w2, fresh):
            bad("integration-does-not-follow-the-current-map", "")
    return viol


CFG = """SPECIFICATION Spec
CONSTANTS
  NCells = 4
  MaxHist = {depth}
INVARIANT InvPartitions
INVARIANT MaskRoundTrip
INVARIANT MaskNumbersConsecutively
VIEW View
ACTION_CONSTRAINT Emit
"""


def run_part(v):
    depth = 2
    res = core.run_tlc("RTObject", CFG.format(depth=depth), workers=1, seed=v.seed, timeout=3000, tag="C10-object")
    core.tlc_must_pass(res, "RTObject")
    v.add_tlc(res, "RTObject")
    edges = [r for r in res.records if "h" in r]
    ops = {(r["h"][-1]["op"], r["outcome"]) for r in edges}
    if not {("voxel_map", "ok"), ("mask", "ok"), ("voxel_map", "ValueError"), ("mask", "ValueError"), ("read", "ok")} <= ops:
        raise core.MachineryError(f"vacuity: RTObject actions {ops}")
    if v.tier == "quick" and len(edges) > 1500:
        import random
        edges = random.Random(v.seed).sample(edges, 1500)
    out = core.fan_out("mbt.c10_object", "replay", edges, None)
    for r, vs in zip(edges, out):
        for x in vs:
            v.violation(x["sig"], x["detail"], dict(r, part="object"))
    v.add_cases(len(edges), keys=["obj" + json.dumps(r["h"]) for r in edges])


def selftest():
    rec = {"h": [{"op": "mask", "m": [True, False, True, True]}], "map": [0, -1, 1, 2], "bins": 3, "outcome": "ok", "inv": [[1], [3], [4]]}
    good = replay(rec, None)
    bad = replay(dict(rec, map=[0, -1, 2, 1]), None)
    return not good and bool(bad)
