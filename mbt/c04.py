"""C04 - beam density and direction.  Spec: spec/BeamDensity.tla (exact rational ingredients per lattice point).

(R/E) a real Beam + SingleRayAttenuator in a uniform multi-species Plasma is built for every (species mix, beam shape) and
      Beam.density / Beam.direction are evaluated at every lattice point TLC enumerates: domain class exact, value vs
      N0 exp(-S z / v) exp(-r^2/2) / (2 pi sx sy) with the spec's exact S, sx^2, sy^2 and CODATA constants (1e-9).
(T)   the mock stopping rates record the arguments they are evaluated with: (E_int, sum_j Z_j^2 n_j / Z_i, T_i).
"""
import json
import math
from fractions import Fraction

from . import core

NU = 1e18
US = 1e-15
ENERGY, POWER, TI = 50000.0, 1.0e6, 100.0
ELS = {1: "deuterium", 2: "helium", 5: "carbon", 6: "carbon", 8: "neon", 9: "neon", 10: "neon"}      # charge -> element
_SCENES = {}


def scene(mix, shape, D, step_cm=50, flow=(0, 0, 0), prior="none", expect=None):
    from raysect.core import Vector3D, translate, rotate_y, rotate_z
    from raysect.optical import World
    from cherab.core import Plasma, Species, Beam
    from cherab.core.atomic import AtomicData, elements as E
    from cherab.core.atomic import rates as R
    from cherab.core.distribution import Maxwellian
    from cherab.core.math import Constant3D, ConstantVector3D
    from cherab.core.model import SingleRayAttenuator
    key = json.dumps([mix, shape, step_cm, list(flow), prior])
    if key in _SCENES:
        return _SCENES[key]
    calls = []
    coeff = {(ELS[zc], zc): (a, c, zc) for zc, n, a, c in mix}

    class Stop(R.BeamStoppingRate):
        def __init__(self, name): self.name = name
        def evaluate(self, e, n, t):
            calls.append((self.name, float(e), float(n), float(t)))
            a, c, zq = coeff[self.name]
            val = (a + c * n / NU) * US * (e / ENERGY)        # proportional to the interaction energy
            # the temperature argument does not enter the formula: asked at another temperature the rate answers differently
            if expect is not None and not moved_phase[0] and abs(t - TI) > 1e-9 * TI:
                val *= 2.3
            return val

    class A(AtomicData):
        def beam_stopping_rate(self, b, p, q): return Stop((p.name, q))

    moved_phase = [prior == "moved"]       # True while the beam still sits at its first placement
    world = World()
    from raysect.core import rotate_x
    # the plasma node itself sits displaced and rotated in the world when the beam is going to be moved (profiles are given in
    # the plasma's own coordinates)
    pxf = (translate(0.4, 0.1, -0.3) * rotate_x(25)) if prior == "moved" else None
    pl = Plasma(parent=world) if pxf is None else Plasma(parent=world, transform=pxf)
    zero = ConstantVector3D(Vector3D(0, 0, 0))
    pl.b_field = zero
    pl.electron_distribution = Maxwellian(Constant3D(1e19), Constant3D(100.0), zero, 9.1093837015e-31)
    xf = translate(0.3, -0.2, 0.1) * rotate_y(35) * rotate_z(20)
    from scipy import constants as K
    vb = math.sqrt(2 * ENERGY * K.e / K.atomic_mass)
    # ion bulk velocity: flow (in tenths of the beam speed, beam frame) expressed in the plasma frame
    vion = ConstantVector3D(Vector3D(*[f * vb / 10.0 for f in flow]).transform(xf))
    moved = prior == "moved"
    if moved:
        # the plasma has three times the densities beyond the plane one half metre to the side of the beam's final axis
        from raysect.core import Point3D
        from raysect.core.math.function.float.function3d.autowrap import PythonFunction3D
        inv = pxf.inverse()
        o, u = Point3D(0, 0, 0).transform(xf).transform(inv), Vector3D(1, 0, 0).transform(xf).transform(inv)      # in plasma coordinates

        def dens(n):
            return PythonFunction3D(lambda x, y, z: (3.0 if (x - o.x) * u.x + (y - o.y) * u.y + (z - o.z) * u.z > 0.5 else 1.0) * n * NU)
    elif prior == "edge":
        # vacuum up to 1.03 m along the beam axis, then the plasma sets in abruptly, ten times denser (a sharp edge between two
        # attenuation nodes)
        from raysect.core import Point3D
        from raysect.core.math.function.float.function3d.autowrap import PythonFunction3D
        o, w = Point3D(0, 0, 0).transform(xf), Vector3D(0, 0, 1).transform(xf)

        def dens(n):
            return PythonFunction3D(lambda x, y, z: (10.0 * n * NU) if (x - o.x) * w.x + (y - o.y) * w.y + (z - o.z) * w.z > 1.03 else 0.0)
    else:
        def dens(n):
            return Constant3D(n * NU)
    pl.composition = [Species(getattr(E, ELS[zc]), zc, Maxwellian(dens(n), Constant3D(TI), vion, getattr(E, ELS[zc]).atomic_weight * 1.66053906660e-27))
                      for zc, n, a, c in mix]
    sg, tx, ty, L, clamp, cs = shape
    uw = Vector3D(1, 0, 0).transform(xf)
    beam = Beam(parent=world, transform=(translate(uw.x, uw.y, uw.z) * xf) if moved else xf)
    beam.plasma = pl
    beam.atomic_data = A()
    beam.energy, beam.power, beam.element = ENERGY, POWER, E.deuterium
    beam.sigma = sg / D
    beam.divergence_x = math.degrees(math.atan(tx / D))
    beam.divergence_y = math.degrees(math.atan(ty / D))
    beam.length = L / D
    beam.attenuator = SingleRayAttenuator(step=step_cm / 100.0, clamp_to_zero=bool(clamp), clamp_sigma=float(cs))
    if moved:
        beam.density(0.0, 0.0, 0.5 * L / D)          # evaluated where it was built ...
        beam.transform = xf                          # ... then moved to its final place
        moved_phase[0] = False
        del calls[:]
    _SCENES[key] = (beam, calls)
    if len(_SCENES) > 40:
        _SCENES.clear()
    return beam, calls


def replay(rec, ctx):
    from scipy import constants as K
    from cherab.core.atomic import deuterium
    D = rec["D"]
    beam, calls = scene(rec["mix"], rec["shape"], D, rec["step_cm"], tuple(rec.get("flow", (0, 0, 0))), rec.get("prior", "none"), expect=True)
    efac = rec["efac"][0] / rec["efac"][1] if "efac" in rec else 1.0
    x, y, z = rec["x"] / D, rec["y"] / D, rec["z"] / D
    viol = []
    nsp = len(rec["mix"])
    tag = f"{nsp}-species" + ("[beam-moved]" if rec.get("prior") == "moved" else "")

    def bad(what, detail):
        viol.append({"sig": f"{tag}:{what}", "detail": f"{detail} | step={rec['step_cm']}cm flow={rec.get('flow')} mix={rec['mix']} shape={rec['shape']} point=({x},{y},{z})"})
    try:
        got = beam.density(x, y, z)
    except Exception as ex:         # noqa: BLE001
        bad(f"density-raised-{type(ex).__name__}", repr(ex)[:200])
        return viol
    cls = rec["class"]
    if cls != "value":
        if got != 0.0:
            bad(f"{cls}:density-not-zero", repr(got))
    else:
        v = math.sqrt(2 * ENERGY * K.e / K.atomic_mass)
        rate = POWER / (ENERGY * deuterium.atomic_weight * K.e)
        sx2, sy2 = rec["sx2"] / D ** 4, rec["sy2"] / D ** 4
        s_phys = rec["S"] * NU * US * efac
        want = rate / v * math.exp(-s_phys * z / v) * math.exp(-0.5 * (x * x / sx2 + y * y / sy2)) / (2 * math.pi * math.sqrt(sx2 * sy2))
        # between attenuation nodes the code interpolates the density linearly: relative error <= (S step / v)^2 / 8
        h = rec["shape"][3] / D / (rec["nbeam"] - 1)          # node spacing of the attenuation table (spec: NBeam)
        rtol = 1e-9 + (0.0 if rec["on_node"] else 1.01 * (s_phys * h / v) ** 2 / 8)
        if not core.close(got, want, rtol=rtol):
            # which ingredient is off: compare the on-axis flux with the unattenuated one
            bad("density-differs", f"{got!r} vs {want!r} (S = {rec['S']} units, attenuation exponent {s_phys * z / v:.6g})")
    # (T) arguments of the stopping-rate evaluations: E and n_eq enter the mock rate's value (a mix-up shows in the density
    # above), T makes it answer wrongly; the recorded calls name the reason, and are observations when the density is right
    wrong_value = bool(viol)
    strict_bad = bad

    def bad(what, detail):      # noqa: F811
        if wrong_value:
            strict_bad(what, detail)
        else:
            viol.append({"observation": f"{tag}:{what}"})
    z2n = rec["z2n"]
    for name, e, n, t in calls[:200]:
        zi = name[1]
        if not (core.close(e, ENERGY * efac, rtol=1e-9) and core.close(n, z2n * NU / zi, rtol=1e-9) and core.close(t, TI, rtol=1e-12)):
            bad("stopping-rate-evaluated-at-wrong-arguments", f"{name}: (E, n_eq, T) = ({e}, {n}, {t}) vs ({ENERGY * efac}, {z2n * NU / zi}, {TI})")
            break
    del calls[:]
    bad = strict_bad
    # direction field
    d = beam.direction(x, y, z)
    if abs(math.sqrt(d.x ** 2 + d.y ** 2 + d.z ** 2) - 1.0) > 1e-12:
        bad("direction-not-unit", str(d))
    if z <= 0:
        if (d.x, d.y, d.z) != (0.0, 0.0, 1.0):
            bad("direction-behind-source-not-axis", str(d))
    else:
        e = [float(Fraction(p[0], p[1])) for p in rec["dir"]]
        norm = math.sqrt(sum(q * q for q in e))
        if max(abs(a - b / norm) for a, b in zip((d.x, d.y, d.z), e)) > 1e-12:
            bad("direction-differs", f"{d} vs {[q / norm for q in e]}")
    return viol


def extra_checks(v):
    """monotone on-axis decay and flux conservation without stopping, on a fine z lattice of the real beam (code only)."""
    viol = []
    beam, _ = scene([[1, 4, 2, 1], [6, 1, 1, 2]], [2, 1, 3, 30, True, 3], 10)
    zs = [i * 0.05 for i in range(0, 61)]
    dens = [beam.density(0, 0, z) * 2 * math.pi * math.sqrt((0.04 + z * z * 0.01) * (0.04 + z * z * 0.09)) for z in zs]
    if any(b > a * (1 + 1e-12) for a, b in zip(dens, dens[1:])):
        viol.append({"sig": "on-axis-flux-increases-with-z", "detail": ""})
    beam0, _ = scene([[1, 4, 0, 0], [2, 1, 0, 0]], [2, 1, 3, 30, True, 3], 10)
    f = [beam0.density(0, 0, z) * 2 * math.pi * math.sqrt((0.04 + z * z * 0.01) * (0.04 + z * z * 0.09)) for z in zs]
    if max(f) - min(f) > 1e-9 * max(f):
        viol.append({"sig": "flux-not-conserved-without-stopping", "detail": f"{min(f)} .. {max(f)}"})
    # a plasma that sets in abruptly along the beam: before the edge the flux is the injected one, it never increases with z and
    # never exceeds the injected flux (BeamDensity.tla: Monotone, NoStoppingConservesFlux), for two attenuation steps
    for step in (50, 7):
        beam_e, _ = scene([[1, 4, 2, 1], [6, 1, 1, 2]], [2, 1, 3, 30, True, 3], 10, step_cm=step, prior="edge")
        zf = [i * 0.01 for i in range(0, 301)]
        fe = [beam_e.density(0, 0, z) * 2 * math.pi * math.sqrt((0.04 + z * z * 0.01) * (0.04 + z * z * 0.09)) for z in zf]
        inj = f[0]
        if any(b > a * (1 + 1e-9) for a, b in zip(fe, fe[1:])):
            k = next(i for i, (a, b) in enumerate(zip(fe, fe[1:])) if b > a * (1 + 1e-9))
            viol.append({"sig": "on-axis-flux-increases-with-z:plasma-edge", "detail": f"step {step} cm: flux {fe[k]!r} at z = {zf[k]}, {fe[k + 1]!r} at z = {zf[k + 1]}"})
        elif max(fe) > inj * (1 + 1e-9):
            viol.append({"sig": "flux-exceeds-the-injected-flux:plasma-edge", "detail": f"step {step} cm: {max(fe)!r} vs {inj!r}"})
    return viol


CFG = """SPECIFICATION Spec
CONSTANTS
  Deep = {deep}
INVARIANT Monotone
INVARIANT NoStoppingConservesFlux
INVARIANT Streamline
INVARIANT SpacingAtMostStep
INVARIANT FlowSlowsOrKeeps
INVARIANT EmitCase
"""


def run(v):
    res = core.run_tlc("BeamDensity", CFG.format(deep="TRUE" if v.tier == "thorough" else "FALSE"), workers=1, seed=v.seed, timeout=3000)
    core.tlc_must_pass(res, "BeamDensity")
    v.add_tlc(res, "BeamDensity")
    cases = [r for r in res.records if "class" in r]
    classes = {r["class"] for r in cases}
    if classes != {"zero_before_source", "zero_beyond_length", "zero_outside_clamp", "value"} or len(cases) < 1000:
        raise core.MachineryError(f"vacuity: classes {classes}")
    cases.sort(key=lambda r: json.dumps([r["mix"], r["shape"], r.get("prior")]))
    out = core.fan_out("mbt.c04", "replay", cases, None, chunk=96)
    obs = {}
    for r, vs in zip(cases, out):
        for x in vs:
            if "observation" in x:
                obs[x["observation"]] = obs.get(x["observation"], 0) + 1
            else:
                v.violation(x["sig"], x["detail"], r)
    v.notes["not_asserted"] = obs
    for x in extra_checks(v):
        v.violation(x["sig"], x["detail"], None)
    v.add_cases(len(cases) + 2, keys=[json.dumps([r.get("prior"), r["mix"], r["shape"], r["x"], r["y"], r["z"], r["step_cm"], r["flow"]]) for r in cases])
    v.sample(next(r for r in cases if r["class"] == "value" and len(r["mix"]) == 3 and r["x"]))
    v.assumptions += ["uniform plasma along the beam (the attenuation integral is exact); spatially varying profiles are exercised through the C01 scenes (attenuator step sensitivity) only",
                      "mock stopping rates a_i + c_i n_eq, ions at rest; CODATA constants; attenuator steps 0.5, 0.3 and 0.07 m (the last two do not divide the beam lengths); off-node points within the linear-interpolation bound"]
    return v.finish(rule="one case = one (species mix, beam shape, lattice point) row of BeamDensity.tla evaluated on the real beam; distinct = distinct rows")


def selftest():
    rec = {"mix": [[1, 4, 3, 0]], "shape": [1, 0, 0, 40, False, 5], "D": 10, "step_cm": 50, "nbeam": 9, "on_node": True, "x": 0, "y": 0, "z": 20, "class": "value", "S": 12, "z2n": 4, "neq": [[4, 1]],
           "sx2": 100, "sy2": 100, "dir": [[0, 100], [0, 100], [20, 1]]}
    good = replay(rec, None)
    _SCENES.clear()
    bad = replay(dict(rec, S=13), None)
    ok = not any("sig" in x for x in good) and any("sig" in x for x in bad)
    print("C04 selftest:", "ok" if ok else "FAILED", good[:1], bad[:1])
    return 0 if ok else 2
