"""C01 (T): random long histories on a real scene, recorded with the callbacks each call notified, validated by TLC
against Scene.tla (Trace_Scene.tla); the scene is also compared with a fresh build at the end of every history."""
import json
import os
import random

from . import core
from . import scene as S
from . import c01

BASES = ("PlasmaModel", "BeamModel", "BeamAttenuator", "Plasma", "Beam", "Laser")
VIAS = {"P_models": ["assign", "set", "clear_add"], "B_models": ["assign", "set", "clear_add"],
        "P_comp": ["set", "clear_add", "add"]}
_LOG = []
_PATCHED = False


def _patch():
    """log, for every Notifier.notify call, the live registered callbacks (owner base class . method); the original
    notify then runs unchanged."""
    global _PATCHED
    if _PATCHED:
        return
    from cherab.core.utility.notify import Notifier
    orig = Notifier.notify

    def notify(self):
        # which public classes own the live callbacks about to run (read off the registry; if a later version keeps its
        # registry elsewhere nothing is logged and the traces are validated for their state only)
        for ref in list(getattr(self, "_callbacks_refs", [])):
            if isinstance(ref, tuple):
                inst = ref[0]()
                if inst is None:
                    continue
                names = [c.__name__ for c in type(inst).__mro__]
                _LOG.append(next((b for b in BASES if b in names), names[0]))
        _LOG.append("__instrumented__" if hasattr(self, "_callbacks_refs") else "__blind__")
        return orig(self)
    Notifier.notify = notify
    _PATCHED = True


def record(args, ctx):
    _patch()
    rng = random.Random(args["seed"])
    params = ctx["params"]
    sc = S.build(S.DEFAULT)
    trace, viol = [], []
    n = args["len"]
    for step in range(n):
        if rng.random() < 0.25:
            k = rng.choice(["plasma_ray", "beam_ray", "laser_ray", "beam_density"])
            S.observe(sc, kinds=[k])
            trace.append({"op": "observe", "k": k})
            continue
        p = rng.choice(params)
        v = rng.choice([1, 2, 3] if p in ("P_models", "B_models", "L_models", "P_comp") else [1] if p in S.REPOINT else [1, 2])
        via = rng.choice(VIAS.get(p, ["assign"]))
        if p == "P_comp" and v == 3 and via == "add":
            via = "set"                   # Scene.tla: ViaOK - adding the species of the empty composition adds nothing
        del _LOG[:]
        try:
            S.apply(sc, {"op": "set", "p": p, "v": v, "via": via})
        except Exception as ex:          # noqa: BLE001
            viol.append({"sig": f"set.{p}:raised-{type(ex).__name__}", "detail": f"{repr(ex)[:200]} after {json.dumps(trace)[:300]}"})
            break
        trace.append({"op": "set", "p": p, "v": v, "via": via, "ran": sorted(set(_LOG))})
        if step == n - 1 or rng.random() < 0.15:
            d = c01._diff(S.observe(sc), c01.fresh_obs(sc.cfg))
            if d:
                viol += [{"sig": f"set.{p}:stale.{k}", "detail": f"long history {json.dumps([[e.get('p'), e.get('v'), e.get('k')] for e in trace])[:500]}"} for k in d]
                break
    return {"trace": trace, "viol": viol}


def run(v):
    n = 48 if v.tier == "quick" else 640
    length = 10 if v.tier == "quick" else 16
    jobs = [{"seed": v.seed * 7919 + i, "len": length} for i in range(n)]
    out = core.fan_out("mbt.c01_trace", "record", jobs, {"params": c01.ALL}, chunk=3)
    traces = [o["trace"] for o in out]
    for o in out:
        for x in o["viol"]:
            v.violation(x["sig"], x["detail"], {"trace": o["trace"]})
    tdir = core.OUT / "traces"
    tdir.mkdir(parents=True, exist_ok=True)
    tf = tdir / f"c01-{os.getpid()}.json"
    tf.write_text(json.dumps(traces))
    cfg = c01.CFG.format(maxhist=0, inits='{"fresh"}', params=c01.tla_set(c01.ALL))
    cfg = cfg.replace("SPECIFICATION Spec", "SPECIFICATION TraceSpec").replace("ACTION_CONSTRAINT Emit\n", "").replace("VIEW View\n", "").replace("PROPERTY ObserveIsPure\n", "")
    cfg += "INVARIANT Progress\n"
    res = core.run_tlc("Trace_Scene", cfg, workers=1, seed=v.seed, env={"TRACE_FILE": str(tf)}, tag="C01-trace", timeout=1800)
    core.tlc_must_pass(res, "Trace_Scene")
    v.add_tlc(res, "Trace_Scene")
    best = {}
    for r in res.records:
        if "tid" in r:
            best[r["tid"]] = max(best.get(r["tid"], 0), r["l"])
    acc = 0
    for i, t in enumerate(traces, 1):
        if best.get(i, 0) == len(t) + 1:
            acc += 1
            continue
        at = best.get(i, 1)
        ev = t[at - 1]
        v.violation(f"trace:set.{ev.get('p')}:required-callbacks-not-notified", f"trace {i} rejected at event {at}: {json.dumps(ev)}", {"trace": t[:at]})
    v.add_cases(len(traces), keys=[json.dumps(t) for t in traces])
    v.notes["traces_recorded"] = len(traces)
    v.notes["traces_accepted_by_TLC"] = acc
    v.notes["trace_events"] = sum(len(t) for t in traces)
    if traces:
        v.sample({"recorded_trace_prefix": traces[0][:3]})
    tf.unlink(missing_ok=True)
