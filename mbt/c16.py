"""C16 - instruments.  Specs: spec/Instrument.tla (setter/getter state machine, exact settings),
spec/Calibrate.tla (exact pixel integrals of raysect's piecewise-linear spectrum).

(R) every TLC-explored edge is replayed on a real Spectrometer / CzernyTurnerSpectrometer / Polychromator;
    all public read-outs of the mutated instrument are compared with an instrument constructed directly
    with the final parameters and, for integer layouts / filter sets, with the exact values TLC computed.
"""
import json
from fractions import Fraction

from . import core

KINDS = ["spectrometer", "czerny", "polychromator"]
NAMES = {1: "A", 2: "B"}
CZ = {"order": {1: 1, 2: 2, 0: 0, -1: -1}, "grating": {1: 1.2e-3, 2: 1.0e-3, 0: 0.0, -1: -1.e-3},
      "focal": {1: 1.e9, 2: 0.8e9, 0: 0.0, -1: -1.e9}, "spacing": {1: 2.e4, 2: 1.5e4, 0: 0.0, -1: -2.e4},
      "angle": {1: 10.0, 2: 12.0, 0: 0.0, -1: -5.0},
      "acc": {1: ((500.0, 4),), 2: ((400.0, 3), (600.0, 5)), 3: ((300.0, 6),), 4: ((600.0, 5), (400.0, 3)), 5: ((400.0, 64), (400.3, 8)), 6: ((400.3, 8), (400.0, 64)), 0: ((-500.0, 4),), -1: ((500.0, 0),), -2: ((500.0, -3),)}}
BAD_W2P = {0: [[500.0, 499.0, 501.0]], -1: [[500.0]], -2: [[[1.0, 2.0], [3.0, 4.0]]]}


def conc(kind, tables, p, v):
    if p == "name":
        return NAMES[v]
    if p in ("mbp", "mbw"):
        return v
    if p == "w2p":
        if v <= 0:
            return BAD_W2P[v]
        # the calibration arrays as lists of lists (odd ids) or as a tuple of ndarrays (even ids): same instrument
        import numpy as np
        lay = [list(map(float, a)) for a in tables["layouts"][v - 1]]
        return lay if v % 2 else tuple(np.array(a) for a in lay)
    if p == "filters":
        from cherab.tools.spectroscopy import TrapezoidalFilter, PolychromatorFilter
        if v in (4, 5):
            # Instrument.tla: sets 4 and 5 are tabulated transmission curves whose wavelengths are listed downwards
            return [PolychromatorFilter([c + w / 2.0, c + w / 4.0, float(c), c - w / 4.0, c - w / 2.0], [0.0, 1.0, 1.0, 1.0, 0.0], name=f"f{c}") for c, w in tables["filtersets"][v - 1]]
        return [TrapezoidalFilter(float(c), float(w), name=f"f{c}") for c, w in tables["filtersets"][v - 1]]
    if p == "acc" and v > 0 and v % 2 == 0:
        return [list(x) for x in CZ[p][v]]          # accommodated spectra as a list of lists instead of a tuple of tuples
    return CZ[p][v]


ATTR = {"w2p": "wavelength_to_pixel", "mbp": "min_bins_per_pixel", "mbw": "min_bins_per_window", "name": "name", "filters": "filters",
        "order": "diffraction_order", "grating": "grating", "focal": "focal_length", "spacing": "pixel_spacing",
        "angle": "diffraction_angle", "acc": "accommodated_spectra"}


def build(kind, tables, par):
    from cherab.tools.spectroscopy import Spectrometer, CzernyTurnerSpectrometer, Polychromator
    c = lambda p: conc(kind, tables, p, par[p])      # noqa: E731
    if kind == "spectrometer":
        return Spectrometer(c("w2p"), c("mbp"), c("name"))
    if kind == "czerny":
        return CzernyTurnerSpectrometer(c("order"), c("grating"), c("focal"), c("spacing"), c("angle"), c("acc"), c("mbp"), c("name"))
    return Polychromator(c("filters"), c("mbw"), c("name"))


def _safe(f):
    try:
        return f()
    except Exception as e:          # noqa: BLE001
        return "raised-" + type(e).__name__


def _filt(f):
    return None if f is None else [float(f.central_wavelength), float(f.window), f.name]


def readout(kind, ins):
    """All public read-outs, as plain comparable data."""
    import numpy as np
    out = {}
    out["min_wavelength"] = _safe(lambda: float(ins.min_wavelength))
    out["max_wavelength"] = _safe(lambda: float(ins.max_wavelength))
    out["spectral_bins"] = _safe(lambda: int(ins.spectral_bins))
    out["name"] = _safe(lambda: ins.name)
    if kind != "polychromator":
        out["wavelength_to_pixel"] = _safe(lambda: [np.asarray(a).tolist() for a in ins.wavelength_to_pixel])
        out["wavelengths"] = _safe(lambda: [np.asarray(a).tolist() for a in ins.wavelengths])
        out["min_bins_per_pixel"] = _safe(lambda: ins.min_bins_per_pixel)
    else:
        out["filters"] = _safe(lambda: [_filt(f) for f in ins.filters])
        out["min_bins_per_window"] = _safe(lambda: ins.min_bins_per_window)
    if kind != "polychromator":
        out["calibrate"] = _safe(lambda: _calibrate(ins))
    if kind == "czerny":
        for a in ("diffraction_order", "grating", "focal_length", "pixel_spacing", "diffraction_angle"):
            out[a] = _safe(lambda a=a: float(getattr(ins, a)))
        out["accommodated_spectra"] = _safe(lambda: [list(x) for x in ins.accommodated_spectra])
    out["pipeline_classes"] = _safe(lambda: [c.__name__ for c in ins.pipeline_classes])
    out["pipeline_kwargs"] = _safe(lambda: [{k: (_filt(x) if k == "filter" else x) for k, x in kw.items()} for kw in ins.pipeline_kwargs])
    out["create_pipelines"] = _safe(lambda: [[type(p).__name__, p.name, _filt(getattr(p, "filter", None))] for p in ins.create_pipelines()])
    return out


def _calibrate(ins):
    """calibrate a fixed smooth spectrum spanning the instrument's range onto its pixels"""
    import numpy as np
    from raysect.optical import Spectrum
    lo, hi = float(ins.min_wavelength), float(ins.max_wavelength)
    sp = Spectrum(lo - 1.0, hi + 1.0, 400)
    w = np.asarray(sp.wavelengths)
    sp.samples[:] = 1.0 + 0.01 * (w - lo) + 0.3 * np.sin(0.5 * (w - lo))
    return [np.asarray(a, float).tolist() for a in ins.calibrate(sp)]


def _kind_of(ins):
    from cherab.tools.spectroscopy import CzernyTurnerSpectrometer, Polychromator
    return "czerny" if isinstance(ins, CzernyTurnerSpectrometer) else ("polychromator" if isinstance(ins, Polychromator) else "spectrometer")


def _get(ins, g):
    if g == "calibrate":
        return _calibrate(ins)
    if g == "all":
        return readout(_kind_of(ins), ins)
    if g == "spectral":
        return ins.min_wavelength, ins.max_wavelength, ins.spectral_bins
    if g == "classes":
        return ins.pipeline_classes
    if g == "kwargs":
        return ins.pipeline_kwargs
    return ins.create_pipelines()


def replay(rec, ctx):
    kind = (ctx or rec)["kind"]
    tables = (ctx or rec)["tables"]
    h = rec["h"]
    ins = build(kind, tables, h[0]["par"])
    # a second instrument with the other parameter values lives alongside and is never touched: instruments share nothing
    other = build(kind, tables, {p: (2 if v == 1 else 1) for p, v in h[0]["par"].items()})
    other_before = readout(kind, other)
    outcome = "ok"
    for e in h[1:]:
        outcome = "ok"
        try:
            if e["op"] == "set":
                setattr(ins, ATTR[e["p"]], conc(kind, tables, e["p"], e["v"]))
            else:
                _get(ins, e["g"])
        except ValueError:
            outcome = "ValueError"
        except Exception as ex:          # noqa: BLE001
            outcome = "raised-" + type(ex).__name__
    last = h[-1]
    opname = (f"set.{last['p']}" + ("[invalid]" if rec["outcome"] != "ok" else "")) if last["op"] == "set" else (f"get.{last['g']}" if last["op"] == "get" else "init")
    viol = []

    def bad(what, detail):
        viol.append({"sig": f"{kind}:{opname}:{what}", "detail": detail})
    if outcome != rec["outcome"]:
        bad(f"outcome-{outcome}-expected-{rec['outcome']}", json.dumps(h[1:])[:300])
        if outcome.startswith("raised"):
            return viol
    a = readout(kind, ins)             # read before the twin is constructed
    fresh = build(kind, tables, rec["par"])
    b = readout(kind, fresh)
    other_after = readout(kind, other)
    for k in other_before:
        if other_after[k] != other_before[k]:
            bad(f"another-instrument-changed.{k}", f"an untouched instrument read {other_before[k]!r} before and {other_after[k]!r} after this history"[:400])
    a2 = readout(kind, ins)
    for k in a:
        if a2[k] != a[k]:
            bad(f"changed-by-constructing-another-instrument.{k}", f"{a[k]!r} -> {a2[k]!r}"[:400])
    for k in a:
        if a[k] != b[k]:
            bad(f"differs-from-fresh.{k}", f"after history: {a[k]!r}; fresh: {b[k]!r}"[:400])
        if isinstance(b[k], str) and b[k].startswith("raised-") and k != "name":
            bad(f"readout-raises.{k}", f"{b[k]} on a freshly constructed instrument")
    if kind != "polychromator" and not isinstance(a["wavelength_to_pixel"], str) and not isinstance(a["spectral_bins"], str):
        # the property's inequalities, for any layout: the range covers every pixel, bins are at most narrowest pixel / min_bins wide
        edges = [x for arr in a["wavelength_to_pixel"] for x in arr]
        widths = [abs(arr[i + 1] - arr[i]) for arr in a["wavelength_to_pixel"] for i in range(len(arr) - 1)]
        lo, hi, nb = a["min_wavelength"], a["max_wavelength"], a["spectral_bins"]
        if not (lo <= min(edges) and max(edges) <= hi):
            bad("range-does-not-cover-every-pixel", f"range ({lo}, {hi}) pixel edges span ({min(edges)}, {max(edges)})")
        elif nb <= 0 or (hi - lo) / nb > min(widths) / a["min_bins_per_pixel"] * (1 + 1e-12):
            bad("bin-wider-than-narrowest-pixel-over-min-bins", f"({hi} - {lo}) / {nb} > {min(widths)} / {a['min_bins_per_pixel']}")
    if rec["exact"]:
        mn2, mx2, bins = rec["exact"]
        if a["min_wavelength"] != mn2 / 2 or a["max_wavelength"] != mx2 / 2:
            bad("range-not-exact", f"({a['min_wavelength']}, {a['max_wavelength']}) vs spec ({mn2 / 2}, {mx2 / 2})")
        if a["spectral_bins"] != bins:
            bad("bins-not-exact", f"{a['spectral_bins']} vs spec {bins}")
    return viol


def replay_cal(rec, ctx):
    """Calibrate case: real Spectrometer.calibrate on a real raysect Spectrum vs TLC's exact integrals."""
    from raysect.optical import Spectrum
    from cherab.tools.spectroscopy import Spectrometer
    tables = (ctx or rec)["tables"]
    cs = rec["case"]
    T = rec["T"]
    edges = [list(map(float, a)) for a in tables["layouts"][cs["lay"] - 1]]
    spm = Spectrometer(edges, 1, "cal")
    smin = rec["smin"] / T
    smax = (rec["smin"] + rec["nbins"] * cs["W"]) / T
    sp = Spectrum(smin, smax, rec["nbins"])
    sp.samples[:] = [float(x) for x in rec["samples"]]
    viol = []
    try:
        cal = spm.calibrate(sp)
    except Exception as ex:              # noqa: BLE001
        return [{"sig": f"calibrate:raised-{type(ex).__name__}", "detail": repr(ex)[:200]}]
    if len(cal) != len(edges):
        return [{"sig": "calibrate:wrong-number-of-spectra", "detail": f"{len(cal)} vs {len(edges)}"}]
    for k, e in enumerate(edges):
        if len(cal[k]) != len(e) - 1:
            viol.append({"sig": "calibrate:wrong-number-of-pixels", "detail": f"spectrum {k}"})
            continue
        for i in range(len(e) - 1):
            num, den = rec["expected"][k][i]
            want = float(Fraction(num, den))
            got = float(cal[k][i]) * (e[i + 1] - e[i])
            if not core.close(got, want, rtol=1e-12, atol=1e-12):
                viol.append({"sig": "calibrate:pixel-integral-differs", "detail": f"layout {cs['lay']} spectrum {k} pixel {i}: value*width={got!r}, exact integral {num}/{den}={want!r}"})
    return viol


CFG = """SPECIFICATION Spec
CONSTANTS
  Kind = "{kind}"
  MaxHist = {maxhist}
INVARIANT NoStale
INVARIANT EagerAlwaysFilled
INVARIANT RangeCovers
INVARIANT BinWidthBound
VIEW View
ACTION_CONSTRAINT Emit
"""
CFG_CAL = """SPECIFICATION Spec
INVARIANT Additive
INVARIANT NonNegative
INVARIANT EmitCase
"""


SPEC_MUTANTS = {
    "spectrometer": [("mbp-does-not-clear-spectral", '(CASE p \\in {"w2p", "mbp"} -> {"spectral"} [] p = "name" -> {"kwargs"})', '(CASE p \\in {"w2p"} -> {"spectral"} [] p = "mbp" -> {} [] p = "name" -> {"kwargs"})'),
                     ("name-does-not-clear-kwargs", '(CASE p \\in {"w2p", "mbp"} -> {"spectral"} [] p = "name" -> {"kwargs"})', '(CASE p \\in {"w2p", "mbp"} -> {"spectral"} [] p = "name" -> {})'),
                     ("getter-fills-from-initial-parameters", 'cache[c] = <<>> THEN <<Proj(c, par)>> ELSE cache[c]]', 'cache[c] = <<>> THEN <<Proj(c, hist[1].par)>> ELSE cache[c]]')],
    "czerny": [("optics-do-not-rebuild-w2p", '"acc"} -> {"w2p", "spectral"}', '"acc"} -> {"spectral"}'),
               ("optics-do-not-clear-spectral", '"acc"} -> {"w2p", "spectral"}', '"acc"} -> {"w2p"}'),
               ("invalid-value-accepted", "    /\\ outcome' = \"ValueError\"\n    /\\ UNCHANGED <<par, cache, used>>", "    /\\ outcome' = \"ValueError\"\n    /\\ par' = [par EXCEPT ![p] = v] /\\ UNCHANGED <<cache, used>>")],
    "polychromator": [("filters-do-not-clear-classes", 'p = "filters" -> {"spectral", "classes", "kwargs"}', 'p = "filters" -> {"spectral", "kwargs"}'),
                      ("filters-do-not-clear-kwargs", 'p = "filters" -> {"spectral", "classes", "kwargs"}', 'p = "filters" -> {"spectral", "classes"}'),
                      ("mbw-does-not-clear-spectral", '[] p = "mbw" -> {"spectral"}', '[] p = "mbw" -> {}')],
}


def run(v):
    if v.tier == "thorough":
        from . import specmut
        v.notes["spec_mutants"] = {}
        for kind in KINDS:
            cfg = CFG.format(kind=kind, maxhist=3).replace("ACTION_CONSTRAINT Emit\n", "")
            v.notes["spec_mutants"][kind] = specmut.audit("Instrument", cfg, SPEC_MUTANTS[kind])
    depth = {"quick": {"spectrometer": 4, "czerny": 3, "polychromator": 4},
             "thorough": {"spectrometer": 6, "czerny": 4, "polychromator": 6}}[v.tier]
    tables = None
    for kind in KINDS:
        res = core.run_tlc("Instrument", CFG.format(kind=kind, maxhist=depth[kind]), workers=1, seed=v.seed, tag="C16-" + kind, timeout=3000)
        core.tlc_must_pass(res, "Instrument/" + kind)
        v.add_tlc(res, "Instrument/" + kind)
        tables = [r for r in res.records if "tables" in r][0]
        edges = [r for r in res.records if "h" in r]
        # the initial states themselves (freshly constructed instruments, no call yet)
        inits = {json.dumps(r["h"][0]): r["h"][0] for r in edges}
        edges = [{"h": [i], "par": i["par"], "outcome": "ok", "exact": []} for i in inits.values()] + edges
        ops = {(r["h"][-1]["op"], r["outcome"]) for r in edges}
        for need in (("set", "ok"), ("set", "ValueError"), ("get", "ok")):
            if need not in ops:
                raise core.MachineryError(f"vacuity: {need} never taken for {kind}")
        out = core.fan_out("mbt.c16", "replay", edges, {"kind": kind, "tables": tables})
        failed = {json.dumps(r["h"]) for r, vs in zip(edges, out) if vs}
        for r, vs in zip(edges, out):
            if any(json.dumps(r["h"][:k]) in failed for k in range(1, len(r["h"]))):
                continue
            for x in vs:
                v.violation(x["sig"], x["detail"], dict(r, kind=kind, tables=tables))
        v.add_cases(len(edges), keys=[kind + json.dumps(r["h"]) for r in edges])
        v.sample({"kind": kind, "history": edges[len(edges) // 2]["h"], "final_par": edges[len(edges) // 2]["par"], "exact": edges[len(edges) // 2]["exact"]})
    res = core.run_tlc("Calibrate", CFG_CAL, workers=1, seed=v.seed, tag="C16-cal", timeout=3000)
    core.tlc_must_pass(res, "Calibrate")
    v.add_tlc(res, "Calibrate")
    cases = [r for r in res.records if "case" in r]
    if len(cases) < 50:
        raise core.MachineryError("vacuity: too few calibrate cases")
    out = core.fan_out("mbt.c16", "replay_cal", cases, {"tables": tables})
    for r, vs in zip(cases, out):
        for x in vs:
            v.violation(x["sig"], x["detail"], dict(r, tables=tables, cal=True))
    v.add_cases(len(cases), keys=["cal" + json.dumps(r["case"]) for r in cases])
    v.sample({"calibrate_case": cases[0]["case"], "expected_value_times_width": cases[0]["expected"]})
    v.assumptions += ["Spectrum semantics are raysect's: samples at bin centres, linear in between, constant beyond the outer centres",
                      "min_bins values are powers of two and layouts integer so that the bin count is exact in floating point",
                      "CzernyTurner optics (resolution formula) is opaque: compared mutated-vs-fresh only"]
    return v.finish(rule="one case = one TLC-explored edge (setter/getter history) replayed on a real instrument and compared with a freshly constructed "
                         "one and TLC's exact settings, or one calibrate case compared with TLC's exact pixel integrals; distinct = distinct histories/cases")


def replay_any(rec, ctx):
    return replay_cal(rec, None) if rec.get("cal") else replay(rec, None)


def selftest():
    tables = {"layouts": [[[500, 501, 502, 504]], [[400, 402, 404], [600, 601, 603]], [[300, 304, 308, 312]]], "filtersets": [[[500, 4]], [[500, 4], [656, 2]], [[434, 8], [656, 2], [500, 4]]]}
    rec = {"h": [{"op": "init", "par": {"w2p": 1, "mbp": 1, "name": 1}}, {"op": "set", "p": "mbp", "v": 2}], "par": {"w2p": 1, "mbp": 2, "name": 1},
           "outcome": "ok", "exact": [1000, 1008, 8], "kind": "spectrometer", "tables": tables}
    good = replay(rec, None)
    bad = replay(dict(rec, exact=[1000, 1008, 9]), None)
    bad2 = replay(dict(rec, par={"w2p": 1, "mbp": 4, "name": 1}, exact=[]), None)
    ok = not good and bad and bad2
    print("C16 selftest:", "ok" if ok else "FAILED", good[:1], bad[:1], bad2[:1])
    return 0 if ok else 2
