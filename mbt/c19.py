"""C19 - element/isotope registry.  Spec: spec/Registry.tla.

(T) the registry is data: every exported Element/Isotope, every lookup spelling and the ==, !=, hash
    relations are recorded from the real module into a JSON file which *is* the trace; TLC loads it
    and evaluates the property's first-order formulas, one state per object.
"""
import json
import os
import re

from . import core

INVS = ["LookupReturnsSelf", "LookupCovered", "UniqueName", "UniqueSymbol", "ZMatchesTable", "IsotopeConsistent",
        "EqIsIdentity", "NeIsComplement", "EqualHashEqual", "UsableAsDictKey", "LinesOK"]


def spellings(s):
    return sorted({s, s.lower(), s.upper(), s.title(), s.swapcase()})


def dump():
    from cherab.core.atomic import elements as E
    from cherab.core.atomic import Element, Isotope, Line, lookup_element, lookup_isotope
    objs = []
    for n in sorted(dir(E)):
        x = getattr(E, n)
        if type(x) is Element or type(x) is Isotope:
            if not any(x is y for y in objs):
                objs.append(x)
    objs.sort(key=lambda x: (type(x) is Isotope, x.atomic_number, getattr(x, "mass_number", 0), x.name))
    idx = {id(x): i + 1 for i, x in enumerate(objs)}

    def ident(x):
        return idx.get(id(x), 0) if x is not None else 0

    recs, lookups = [], []
    for x in objs:
        iso = type(x) is Isotope
        recs.append({"kind": "isotope" if iso else "element", "name": x.name, "lname": x.name.lower(), "symbol": x.symbol,
                     "lsymbol": x.symbol.lower(), "z": int(x.atomic_number), "a": int(x.mass_number) if iso else 0,
                     "w": int(round(x.atomic_weight * 1e6)), "el": ident(x.element) if iso else 0})

    def look(fn, args, target, via):
        try:
            r = ident(fn(*args))
        except ValueError:
            r = -1
        except Exception:            # noqa: BLE001
            r = -2
        lookups.append({"target": target, "via": via, "key": [str(a) for a in args], "result": r})

    for x in objs:
        t = idx[id(x)]
        if type(x) is Element:
            for s in spellings(x.name):
                look(lookup_element, (s,), t, "name")
            for s in spellings(x.symbol):
                look(lookup_element, (s,), t, "symbol")
            look(lookup_element, (x.atomic_number,), t, "z")
            look(lookup_element, (str(x.atomic_number),), t, "z")
            look(lookup_element, (x,), t, "object")
        else:
            for s in spellings(x.name):
                look(lookup_isotope, (s,), t, "name")
            for s in spellings(x.symbol):
                look(lookup_isotope, (s,), t, "symbol")
            el = x.element
            for s in spellings(el.symbol):
                look(lookup_isotope, (s + str(x.mass_number),), t, "elsymbol+a")
            for s in spellings(el.name):
                look(lookup_isotope, (s + str(x.mass_number),), t, "elname+a")
            for spec in [el, el.symbol, el.symbol.lower(), el.name, el.name.upper(), el.atomic_number, str(el.atomic_number)]:
                look(lookup_isotope, (spec, x.mass_number), t, "element,number")
            look(lookup_isotope, (x,), t, "object")
    eq = [[j + 1 for j, y in enumerate(objs) if x == y] for x in objs]
    not_ne = [[j + 1 for j, y in enumerate(objs) if not (x != y)] for x in objs]
    hashes = [str(hash(x)) for x in objs]
    d = {}
    for i, x in enumerate(objs):
        d.setdefault(x, i + 1)
    dictkey = [d[x] for x in objs]
    # lines
    sample = [x for x in objs if x.name in ("hydrogen", "deuterium", "tritium", "helium", "helium3", "carbon", "neon", "protium", "carbon12")]
    lines = []
    for x in sample:
        for q in sorted({0, max(0, x.atomic_number - 1)}):
            for tr in [(3, 2), (2, 1), ("3", "2"), ("2s1 3p1 3P4.0", "2s1 3s1 3S1.0")]:
                for copy in (0, 1):
                    lines.append((Line(x, q, tuple(tr)), x.name, q, tr))
    ld = {}
    for i, (ln, *_r) in enumerate(lines):
        ld.setdefault(ln, i + 1)
    lrec = []
    for i, (ln, nm, q, tr) in enumerate(lines):
        lrec.append({"el": nm, "q": q, "t": [str(t) + ("i" if isinstance(t, int) else "s") for t in tr], "twin": i + 2 if i % 2 == 0 else i,
                     "eq": [j + 1 for j, (m, *_r) in enumerate(lines) if ln == m],
                     "not_ne": [j + 1 for j, (m, *_r) in enumerate(lines) if not (ln != m)],
                     "hash": str(hash(ln)), "dictkey": ld[ln]})
    return {"objects": recs, "lookups": lookups, "eq": eq, "not_ne": not_ne, "hash": hashes, "dictkey": dictkey, "lines": lrec}


def validate(v, reg, label="Registry"):
    tdir = core.OUT / "traces"
    tdir.mkdir(parents=True, exist_ok=True)
    f = tdir / f"c19-{os.getpid()}.json"
    f.write_text(json.dumps(reg))
    cfg = "SPECIFICATION Spec\n" + "".join(f"INVARIANT {i}\n" for i in INVS)
    res = core.run_tlc("Registry", cfg, workers=1, seed=v.seed, env={"REGISTRY_FILE": str(f)}, tag="C19", timeout=1800, extra=["-continue"])
    f.unlink(missing_ok=True)
    v.add_tlc(res, label)
    out = res.stdout
    found = []
    blocks = re.split(r"Error: Invariant (\w+) is violated", out)
    for k in range(1, len(blocks), 2):
        inv = blocks[k]
        m = re.search(r"o = (\d+)", blocks[k + 1])
        oid = int(m.group(1)) if m else 0
        found.append((inv, oid))
    if not found and not res.ok and "Invariant" not in (res.error or ""):
        raise core.MachineryError("TLC failed on Registry:\n" + (res.error or "")[:1500])
    return found, res


def run(v):
    reg = dump()
    found, res = validate(v, reg)
    n = len(reg["objects"])
    if n < 300 or len(reg["lookups"]) < 3000 or res.distinct != n + len(reg['lines']):
        raise core.MachineryError(f"vacuity: {n} objects, {len(reg['lookups'])} lookups, {res.distinct} TLC states")
    for inv, oid in found:
        if 0 < oid <= n:
            name, what = reg["objects"][oid - 1]["name"], json.dumps(reg["objects"][oid - 1])
        else:
            ln = reg["lines"][oid - n - 1]
            name, what = f"Line({ln['el']},{ln['q']},{ln['t']})", json.dumps(ln)
        v.violation(f"{inv}:{name}", f"invariant {inv} of Registry.tla is violated for {name}: {what}",
                    {"object": oid, "invariant": inv})
    v.add_cases(n + len(reg["lookups"]) + len(reg["lines"]), keys=[json.dumps(l["key"]) + l["via"] for l in reg["lookups"]] + [o["name"] for o in reg["objects"]], validated=1)
    v.coverage["exhaustive"] = True
    v.sample({"object": reg["objects"][0], "lookup": reg["lookups"][0]})
    v.sample({"object": reg["objects"][100], "lookup": reg["lookups"][-1], "line": reg["lines"][0]})
    v.notes["objects"] = n
    v.notes["lookups_recorded"] = len(reg["lookups"])
    v.notes["lines"] = len(reg["lines"])
    v.assumptions += ["atomic weights are only range-checked against mass numbers (0.1 u)", "periodic table typed by hand in Registry.tla"]
    rc = v.finish(rule="the dump of the real registry is one trace: every exported Element/Isotope (one TLC state each), every identifier spelling "
                       "(5 letter-case variants) looked up, full ==, != and hash relations; distinct = distinct lookup keys + objects")
    return rc


def replay(rec, ctx):
    reg = dump()
    v = core.Verdict("C19", "quick", 0)
    found, _ = validate(v, reg)
    return [{"sig": f"{i}:{o}"} for i, o in found if i == rec["invariant"] and o == rec["object"]]


def selftest():
    reg = dump()
    v = core.Verdict("C19", "quick", 0)
    good, _ = validate(v, reg)
    reg["lookups"][7]["result"] = reg["lookups"][7]["result"] + 1
    reg["hash"][10] = "1"
    reg["eq"][10].append(12)
    bad, _ = validate(v, reg)
    ok = not good and {i for i, _ in bad} >= {"LookupReturnsSelf", "EqualHashEqual", "EqIsIdentity"}
    print("C19 selftest:", "ok" if ok else "FAILED", good[:2], bad[:4])
    return 0 if ok else 2
