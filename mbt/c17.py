"""C17 - voxels.  Spec: spec/Voxel.tla (one TLC state per polygon x starting vertex x orientation).

(R) an AxisymmetricVoxel is built for every orbit element TLC enumerates (both primitive types) and area, centroid
    and volume are compared with the exact rationals; ToroidalVoxelGrid.total_volume with the sum; the emissivity
    estimator is exact for constants and, with raysect's RNG seeded, matches the area-mean of linear functions
    (= value at the exact centroid) within 6 standard errors.
"""
import json
import math
from fractions import Fraction

from . import core


def _fr(p):
    return Fraction(p[0], p[1])


def replay(rec, ctx):
    viol = []
    for e in rec.get("unit_exps", [0]):
        viol += replay_at(rec, 10.0 ** e, e)
    return viol


def replay_at(rec, u, e):
    """the polygon measured in units of u metres: area ~ u^2, centroid ~ u, volume ~ u^3 (Voxel.tla: UnitExps)"""
    from cherab.tools.inversions.voxels import AxisymmetricVoxel
    viol = []
    verts = [(float(a) * u, float(b) * u) for a, b in rec["vertices"]]
    area = rec["twice_area"] / 2.0 * u * u
    cr, cz = float(_fr(rec["cr"])) * u, float(_fr(rec["cz"])) * u
    vol = float(_fr(rec["volume_over_pi"])) * math.pi * u ** 3
    tag = f"poly{rec['poly']}" + (f"[unit-1e{e}]" if e else "")

    def bad(what, detail):
        viol.append({"sig": f"{tag}:{what}", "detail": f"{detail} | rotation {rec['rot']} reversed {rec['rev']} vertices {rec['vertices']}"})
    from raysect.core import Point2D
    for ptype in ("csg", "mesh"):
        try:
            # the vertices as a list of coordinate pairs, or (mesh) as a list of Point2D objects: same voxel
            v = AxisymmetricVoxel(verts if ptype == "csg" else [Point2D(a, b) for a, b in verts], primitive_type=ptype)
        except Exception as ex:      # noqa: BLE001
            bad(f"{ptype}:construction-raised-{type(ex).__name__}", repr(ex)[:200])
            continue
        if not core.close(v.cross_sectional_area, area, rtol=1e-12):
            bad("area-differs", f"{v.cross_sectional_area!r} vs {area!r}")
        c = v.cross_section_centroid
        if not (core.close(c.x, cr, rtol=1e-12, atol=1e-14 * u) and core.close(c.y, cz, rtol=1e-12, atol=1e-14 * u)):
            bad("centroid-differs", f"({c.x!r}, {c.y!r}) vs ({cr!r}, {cz!r})")
        if not core.close(v.volume, vol, rtol=1e-12):
            bad("volume-differs", f"{v.volume!r} vs {vol!r}")
        got = sorted((p.x, p.y) for p in v.vertices)
        if not core.close([q for p in got for q in p], [q for p in sorted(verts) for q in p], rtol=1e-12, atol=1e-12 * u):
            bad("vertices-differ", str(got))
    # the caller fills one float64 scratch array per cell and re-uses it: a voxel keeps reporting the polygon it was built from
    # (whether the constructor may reorder the caller's array in place is not something the statement settles)
    import numpy as np
    buf = np.array(verts, dtype=np.float64)
    try:
        vf = AxisymmetricVoxel(np.asfortranarray(buf))            # the same vertices column-major in memory
        if not (core.close(vf.cross_sectional_area, area, rtol=1e-12) and core.close(vf.volume, vol, rtol=1e-12)):
            bad("depends-on-the-memory-layout-of-the-vertex-array", f"area {vf.cross_sectional_area!r} vs {area!r}, volume {vf.volume!r} vs {vol!r}")
        v1 = AxisymmetricVoxel(buf)
        buf[:] = np.array(verts, dtype=np.float64) * 0.5 + np.array([20.0, 3.0]) * u        # the next cell: same shape, half the size, elsewhere
        v2 = AxisymmetricVoxel(buf)          # noqa: F841  (the next cell, built from the same buffer)
        c1 = v1.cross_section_centroid
        if not (core.close(v1.cross_sectional_area, area, rtol=1e-12) and core.close(v1.volume, vol, rtol=1e-12) and core.close(c1.x, cr, rtol=1e-12, atol=1e-14 * u)):
            bad("voxel-follows-later-edits-of-the-callers-array", f"area {v1.cross_sectional_area!r} (was {area!r}), volume {v1.volume!r} (was {vol!r}) after the caller re-used its vertex array")
    except Exception as ex:      # noqa: BLE001
        bad(f"ndarray-vertices-raised-{type(ex).__name__}", repr(ex)[:200])
    return viol


def estimator(rec, ctx):
    """emissivity_from_function: exact for constants, unbiased for linear functions (seeded, 6 sigma)."""
    from raysect.core.math.random import seed
    from cherab.tools.inversions.voxels import AxisymmetricVoxel
    viol = []
    verts = [(float(a), float(b)) for a, b in rec["vertices"]]
    cr, cz = float(_fr(rec["cr"])), float(_fr(rec["cz"]))
    v = AxisymmetricVoxel(verts)
    tag = f"poly{rec['poly']}"
    k = v.emissivity_from_function(lambda r, phi, z: 7.25, 50)
    if k != 7.25:
        viol.append({"sig": f"{tag}:estimator-not-exact-for-constants", "detail": repr(k)})
    n = ctx["n"]
    rs = [a for a, _ in verts]
    zs = [b for _, b in verts]
    for name, f, mean, rng in (("r", lambda r, phi, z: r, cr, max(rs) - min(rs)), ("z", lambda r, phi, z: z, cz, max(zs) - min(zs)),
                               ("r+2z", lambda r, phi, z: r + 2 * z, cr + 2 * cz, (max(rs) - min(rs)) + 2 * (max(zs) - min(zs)))):
        seed(ctx["seed"] + 17 * rec["poly"])
        est = v.emissivity_from_function(f, n)
        tol = 6.0 * (rng / 2.0) / math.sqrt(n)
        if abs(est - mean) > tol:
            viol.append({"sig": f"{tag}:estimator-biased", "detail": f"mean of {name} over {n} samples = {est!r}, area-mean = {mean!r}, 6-sigma tolerance {tol:.3g}; vertices {rec['vertices']}"})
    return viol


def replay_grid(rec, ctx):
    """history of set_active / parent / unparent calls on a real ToroidalVoxelGrid: totals and members never change."""
    import numpy as np
    from cherab.tools.inversions.voxels import ToroidalVoxelGrid
    polys, vols = ctx["polys"], ctx["volumes_over_pi"]
    h = rec["h"]
    act = h[0]["active"]
    grid = ToroidalVoxelGrid([np.array(p, float) for p in polys], active="all" if act == -1 else int(act))
    viol = []
    want_total = sum(vols) * math.pi
    for e in h[1:]:
        if e["op"] == "set_active":
            grid.set_active(int(e["i"]))
        elif e["op"] == "set_active_all":
            grid.set_active("all")
        elif e["op"] == "unparent_all":
            grid.unparent_all_voxels()
        elif e["op"] == "parent_all":
            grid.parent_all_voxels()
    last = h[-1]["op"]
    if not core.close(grid.total_volume, want_total, rtol=1e-12):
        viol.append({"sig": f"grid:{last}:total-volume-is-not-the-sum-of-voxel-volumes", "detail": f"{grid.total_volume!r} vs {want_total!r} after {json.dumps(h)}"})
    if len(grid) != len(polys) or grid.count != len(polys) or len(list(grid)) != len(polys):
        viol.append({"sig": f"grid:{last}:count-differs", "detail": json.dumps(h)})
    # entry i of the grid-level estimate belongs to voxel i, whichever voxels are attached to the scene graph right now:
    # exact for a constant, and for f = r within 6 standard errors of voxel i's own centroid radius
    try:
        from raysect.core.math.random import seed as _seed
        const = [float(x) for x in grid.emissivities_from_function(lambda r, phi, z: 7.25, 20)]
        if const != [7.25] * len(polys):
            viol.append({"sig": f"grid:{last}:emissivities-not-exact-for-constants", "detail": f"{const} after {json.dumps(h)}"})
        _seed(4242)
        n = 4000
        est = [float(x) for x in grid.emissivities_from_function(lambda r, phi, z: r, n)]
        for i, (p, e) in enumerate(zip(polys, est)):
            rs = [q[0] for q in p]
            tol = 6.0 * ((max(rs) - min(rs)) / 2.0) / math.sqrt(n)
            if abs(e - ctx["centroid_r"][i]) > tol:
                viol.append({"sig": f"grid:{last}:emissivity-entry-is-not-the-voxels-own-estimate", "detail": f"entry {i} = {e!r}, voxel {i} has centroid radius {ctx['centroid_r'][i]!r} (tolerance {tol:.3g}); all entries {est} after {json.dumps(h)}"})
                break
    except Exception as ex:      # noqa: BLE001
        viol.append({"sig": f"grid:{last}:emissivities_from_function-raised-{type(ex).__name__}", "detail": repr(ex)[:200]})
    att = sorted(i for i, vx in enumerate(grid) if vx.parent is grid)
    if att != sorted(rec["attached"]):
        viol.append({"sig": f"grid:{last}:attached-voxels-differ", "detail": f"{att} vs {sorted(rec['attached'])} after {json.dumps(h)}"})
    return viol


CFG_GRID = """SPECIFICATION Spec
CONSTANTS
  NVox = 3
  MaxHist = {depth}
INVARIANT MembersFixed
ACTION_CONSTRAINT Emit
"""
CFG = """SPECIFICATION Spec
CONSTANT WithFamily = TRUE
INVARIANT AreaInvariant
INVARIANT CentroidInvariant
INVARIANT VolumeInvariant
INVARIANT CentroidInBox
INVARIANT EmitCase
"""


def run(v):
    res = core.run_tlc("Voxel", CFG, workers=1, seed=v.seed, timeout=1800)
    core.tlc_must_pass(res, "Voxel")
    v.add_tlc(res, "Voxel")
    cases = [r for r in res.records if "vertices" in r]
    if len(cases) < 500:
        raise core.MachineryError("vacuity: too few voxel cases")
    out = core.fan_out("mbt.c17", "replay", cases, None)
    for r, vs in zip(cases, out):
        for x in vs:
            v.violation(x["sig"], x["detail"], r)
    n = 20000 if v.tier == "quick" else 200000
    canon = [r for r in cases if r["rot"] in (0, 2)]
    out = core.fan_out("mbt.c17", "estimator", canon, {"n": n, "seed": 1000 + v.seed})
    for r, vs in zip(canon, out):
        for x in vs:
            v.violation(x["sig"], x["detail"], dict(r, estimator=True))
    # grid histories (VoxelGrid.tla): the totals do not depend on which voxels are attached
    resg = core.run_tlc("VoxelGrid", CFG_GRID.format(depth=2 if v.tier == "quick" else 4), workers=1, seed=v.seed, tag="C17-grid", timeout=1800)
    core.tlc_must_pass(resg, "VoxelGrid")
    v.add_tlc(resg, "VoxelGrid")
    gedges = [r for r in resg.records if "h" in r]
    three = sorted([r for r in cases if r["rot"] == 0 and not r["rev"] and r["poly"] in (1, 2, 7)], key=lambda r: r["poly"])     # centroid radii 7/3, 7/2, ~10.7
    ctxg = {"polys": [r["vertices"] for r in three], "volumes_over_pi": [float(_fr(r["volume_over_pi"])) for r in three], "centroid_r": [float(_fr(r["cr"])) for r in three]}
    outg = core.fan_out("mbt.c17", "replay_grid", gedges, ctxg)
    for r, vs in zip(gedges, outg):
        for x in vs:
            v.violation(x["sig"], x["detail"], dict(r, grid=True, **ctxg))
    v.add_cases(len(gedges), keys=["grid" + json.dumps(r["h"]) for r in gedges])
    # grid total
    from cherab.tools.inversions.voxels import ToroidalVoxelGrid
    base = [r for r in cases if r["rot"] == 0 and not r["rev"]]
    import numpy as np
    grid = ToroidalVoxelGrid([np.array(r["vertices"], float) for r in base], primitive_type="csg")
    want = sum(float(_fr(r["volume_over_pi"])) for r in base) * math.pi
    if not core.close(grid.total_volume, want, rtol=1e-12) or len(grid) != len(base):
        v.violation("grid:total-volume-differs", f"{grid.total_volume!r} vs sum of voxel volumes {want!r}", None)
    v.add_cases(len(cases) + len(canon) + 1, keys=[json.dumps(r["vertices"]) for r in cases])
    v.sample(cases[0])
    v.sample(cases[len(cases) // 2])
    v.notes["estimator_samples_per_function"] = n
    v.assumptions += ["lattice polygons only; estimator checked on constants (exact) and three linear functions per polygon with raysect's RNG seeded from VERIF_SEED (6 sigma, deterministic per seed)"]
    return v.finish(rule="one case = one element of the dihedral orbit of a lattice polygon built as csg and mesh voxel and compared with exact rationals; plus seeded estimator checks and one grid total")


def replay_any(rec, ctx):
    if rec.get("grid"):
        return replay_grid(rec, rec)
    return estimator(rec, {"n": 20000, "seed": 1000}) if rec.get("estimator") else replay(rec, None)


def selftest():
    rec = {"poly": 2, "rot": 0, "rev": False, "vertices": [[2, 1], [5, 1], [5, 3], [2, 3]], "twice_area": 12, "cr": [126, 36], "cz": [72, 36], "volume_over_pi": [126, 3]}
    good = replay(rec, None)
    bad = replay(dict(rec, twice_area=14), None)
    ok = not good and bool(bad)
    print("C17 selftest:", "ok" if ok else "FAILED", good[:1], bad[:1])
    return 0 if ok else 2
