"""C06 (T): random call sequences on the real repository, validated by TLC (Trace_Repository.tla)."""
import json
import os
import random
import shutil
import tempfile

from . import core
from . import c06

UNIVERSE_CFG = dict(species='{"h", "d", "c"}', donors='{"h", "d"}')
FAMS = ["ionisation", "recombination", "line_power", "continuum_power", "cx_power", "pec_excitation", "pec_recombination",
        "wavelength", "thermal_cx", "pec_thermal_cx", "beam_cx", "beam_stopping", "beam_population", "beam_emission"]
SP, DN, QS, TK, MT = ["h", "d", "c"], ["h", "d"], [0, 1], ["t1", "t2"], [1, 2]


def keys_of(f):
    """Key tuples the *driver* draws from (the spec's universe is what validates them)."""
    if f in c06.ADF11:
        return [[f, s, q] for s in SP for q in QS]
    if f == "thermal_cx":
        return [[f, d, 0, r, q] for d in DN for r in SP for q in QS]
    if f in ("pec_excitation", "pec_recombination", "wavelength"):
        return [[f, s, q, t] for s in SP for q in QS for t in TK]
    if f == "pec_thermal_cx":
        return [[f, d, 0, r, q, t] for d in DN for r in SP for q in QS for t in TK]
    if f == "beam_cx":
        return [[f, d, r, q, t, m] for d in DN for r in SP for q in QS for t in TK for m in MT]
    if f == "beam_stopping":
        return [[f, b, s, q] for b in DN for s in SP for q in QS]
    if f == "beam_population":
        return [[f, b, m, s, q] for b in DN for m in MT for s in SP for q in QS]
    return [[f, b, s, q, t] for b in DN for s in SP for q in QS for t in TK]


FRONT_OF = {"adf11scd": "ionisation", "adf11acd": "recombination", "adf11plt": "line_power", "adf11prb": "continuum_power", "adf11prc": "cx_power",
            "adf11ccd": "thermal_cx", "adf21": "beam_stopping", "adf22bmp": "beam_population", "adf22bme": "beam_emission"}


def readback(root, universe):
    post = []
    for key in universe:
        r = c06.api_read(root, key, 1)
        if r[0] == "missing":
            continue
        vid = -1
        if r[0] == "val":
            for v in (1, 2):
                if c06.same(r[1], c06.value(key, v)):
                    vid = v
            if vid == -1 and isinstance(r[1], dict) and key[0] in FRONT_OF.values() and c06.close_tables(r[1], c06.inst_value(key)):
                vid = c06.INST
        post.append([key, vid])
    return post


def _bad_multi(root, f, pairs, rng):
    """update_* with the valid `pairs` plus one invalid entry (charge beyond Z) inserted at a random position."""
    from cherab.openadas import repository as R
    tree_pairs = list(pairs)
    badkey = list(rng.choice(keys_of(f)))
    main = {"thermal_cx": 3, "pec_thermal_cx": 3, "beam_cx": 2, "beam_stopping": 2, "beam_population": 3, "beam_emission": 2}.get(f, 1)
    qpos = {"thermal_cx": 4, "pec_thermal_cx": 4, "beam_cx": 3, "beam_stopping": 3, "beam_population": 4, "beam_emission": 3}.get(f, 2)
    badkey[qpos] = c06._el(badkey[main]).atomic_number + 1
    pos = rng.randint(0, len(tree_pairs))
    tree_pairs.insert(pos, (badkey, 1))
    try:
        c06.api_multi(root, f, tree_pairs)
    except Exception:                        # noqa: BLE001
        return True
    return False


def record(seed, length, universe):
    rng = random.Random(seed)
    tmpbase = "/dev/shm" if os.path.isdir("/dev/shm") else str(core.OUT)
    root = tempfile.mkdtemp(prefix="c06t-", dir=tmpbase)
    trace = []
    fams = rng.sample(FAMS, rng.randint(1, 3))
    try:
        for _ in range(length):
            f = rng.choice(fams)
            kind = rng.choices(["write", "multi", "reject", "rejmulti", "install"], [6, 2, 2, 2, 2])[0]
            ev = None
            fronts = [fr for fr, ff in FRONT_OF.items() if ff == f]
            if kind == "install" and not fronts:
                kind = "write"
            if kind == "write":
                k = rng.choice(keys_of(f)); v = rng.choice([1, 2]); api = rng.choice(["add", "update"]); sp = rng.choice([1, 2])
                ev = {"op": "write", "k": k, "v": v, "api": api, "sp": sp}
                try:
                    c06.api_write(root, k, c06.value(k, v), api, sp)
                except Exception as e:       # noqa: BLE001
                    ev["op"] = "write-raised-" + type(e).__name__
            elif kind == "install":
                fr = fronts[0]; sp_ = rng.choice(SP); dn = rng.choice(DN) if fr in ("adf11ccd", "adf21", "adf22bmp", "adf22bme") else DN[0]
                # the driver only names the call; which keys it writes is the specification's business (InstallKeys)
                z = c06._el(sp_).atomic_number
                if fr in ("adf11scd", "adf11plt"):
                    qs = [q for q in QS if q + 1 <= z]
                elif fr.startswith("adf11"):
                    qs = [q for q in QS if 1 <= q <= z]
                else:
                    qs = [1]
                ev = {"op": "install", "front": fr, "f": f, "s": sp_, "d": dn}
                try:
                    c06.api_install(root, dict(ev, keys=[[f, q] for q in qs]))
                except Exception as e:       # noqa: BLE001
                    ev["op"] = "install-raised-" + type(e).__name__
            elif kind in ("multi", "rejmulti"):
                ks = rng.sample(keys_of(f), rng.randint(2, 3))
                pairs = [(k, rng.choice([1, 2])) for k in ks]
                ev = {"op": kind, "f": f, "w": [[k, v] for k, v in pairs]}
                if kind == "multi":
                    try:
                        c06.api_multi(root, f, pairs)
                    except Exception as e:   # noqa: BLE001
                        ev["op"] = "multi-raised-" + type(e).__name__
                else:
                    if not _bad_multi(root, f, pairs, rng):
                        ev = None            # invalid entry accepted: not asserted
                        # state may contain a key outside the universe; stop this trace here
                        break
            else:
                k = rng.choice(keys_of(f)); rk = rng.choice(["charge", "shape", "type", "missing", "none", "text"]); api = rng.choice(["add", "update"])
                if rk == "shape" and f == "wavelength":
                    continue
                fld = None
                if rk in ("missing", "none", "text"):
                    flds = c06.corrupt_fields(f, c06.value(k, 2))
                    if not flds:
                        continue
                    fld = rng.choice(flds)
                if not c06.api_reject(root, k, rk, api, fld):
                    break
                ev = {"op": "reject", "k": k, "kind": rk, "api": api}
                if fld is not None:
                    ev["fld"] = fld
            if ev is not None:
                ev["post"] = readback(root, universe)
                trace.append(ev)
    finally:
        shutil.rmtree(root, ignore_errors=True)
    return trace


def _record(args, ctx):
    return record(args["seed"], args["len"], ctx["universe"])


def run(v):
    n = 150 if v.tier == "quick" else 1500
    length = 12 if v.tier == "quick" else 20
    universe = [k for f in FAMS for k in keys_of(f)]
    jobs = [{"seed": v.seed * 100003 + i, "len": length} for i in range(n)]
    traces = core.fan_out("mbt.c06_trace", "_record", jobs, {"universe": universe})
    traces = [t for t in traces if t]
    validate(v, traces)


def validate(v, traces, label="Trace_Repository"):
    tdir = core.OUT / "traces"
    tdir.mkdir(parents=True, exist_ok=True)
    tf = tdir / f"c06-{os.getpid()}.json"
    tf.write_text(json.dumps(traces))
    cfg = c06.CFG.format(apis='{"add", "update"}', maxhist=0, maxmulti=0, same="FALSE", fronts=c06.ALLF, probes="{FALSE}", fieldrej="FALSE", shared="FALSE", **UNIVERSE_CFG)
    cfg = cfg.replace("SPECIFICATION Spec", "SPECIFICATION TraceSpec").replace("ACTION_CONSTRAINT Emit\n", "")
    cfg = cfg.replace("INVARIANT LastWriteWins\n", "").replace("PROPERTY OthersUntouched\n", "").replace("VIEW View\n", "")
    cfg += "INVARIANT Progress\n"
    res = core.run_tlc("Trace_Repository", cfg, workers=1, seed=v.seed, env={"TRACE_FILE": str(tf)}, tag="C06-trace", timeout=1800)
    core.tlc_must_pass(res, label)
    v.add_tlc(res, label)
    best = {}
    for r in res.records:
        if "tid" in r:
            best[r["tid"]] = max(best.get(r["tid"], 0), r["l"])
    nacc = 0
    for i, t in enumerate(traces, 1):
        if best.get(i, 0) == len(t) + 1:
            nacc += 1
            continue
        at = best.get(i, 1)
        ev = t[at - 1]
        fam = ev.get("f") or ev["k"][0]
        v.violation(f"trace:{fam}.{ev['op']}.{ev.get('api', 'update')}:step-not-allowed-by-spec",
                    f"trace {i} rejected at event {at}/{len(t)}: {json.dumps({k: x for k, x in ev.items() if k != 'post'})}",
                    {"trace": t[:at]})
    v.add_cases(len(traces), keys=[json.dumps([[e["op"], e.get("k"), e.get("w")] for e in t]) for t in traces])
    v.notes["traces_recorded"] = len(traces)
    v.notes["traces_accepted"] = nacc
    v.notes["trace_events"] = sum(len(t) for t in traces)
    if traces:
        v.sample({"recorded_trace_prefix": [{k: x for k, x in e.items() if k != "post"} for e in traces[0][:4]]})
    tf.unlink(missing_ok=True)
