"""Specification-mutation audit: the invariants of a specification must reject small corruptions of its own
transition / wiring tables.  A surviving mutant means the model is not tight at that point (the dropped effect is
redundant in the model, or the invariant is too weak to see it); all-surviving means the invariants are vacuous."""
import os
import re
import shutil
import subprocess
from concurrent.futures import ThreadPoolExecutor

from . import core


def _one(module, text, cfg, name, timeout):
    d = core.OUT / "specmut" / f"{module}-{os.getpid()}-{name}"
    shutil.rmtree(d, ignore_errors=True)
    d.mkdir(parents=True)
    (d / f"{module}.tla").write_text(text)
    (d / f"{module}.cfg").write_text(cfg)
    cmd = ["java", "-XX:+UseSerialGC", "-Xmx2g", f"-DTLA-Library={core.SPEC}", "-cp", core.TLA_CP, "tlc2.TLC", "-workers", "1",
           "-metadir", str(d / "states"), "-noGenerateSpecTE", "-deadlock", "-config", str(d / f"{module}.cfg"), str(d / f"{module}.tla")]
    try:
        p = subprocess.run(cmd, cwd=d, stdout=subprocess.PIPE, stderr=subprocess.STDOUT, text=True, timeout=timeout)
        out = p.stdout
    except subprocess.TimeoutExpired:
        out = "timeout"
    shutil.rmtree(d, ignore_errors=True)
    m = re.search(r"Invariant (\w+) is violated|Action property (\w+) is violated|The invariant of (\w+) is equal to FALSE|Temporal properties were violated", out)
    if m:
        return "killed:" + (m.group(1) or m.group(2) or m.group(3) or "temporal")
    if "Model checking completed. No error has been found" in out:
        return "survived"
    if "Assumption" in out and "is false" in out:
        return "killed:ASSUME"
    return "error:" + (re.findall(r"Error: (.*)", out) or [out[-200:]])[0][:160]


def audit(module, cfg, mutants, timeout=600, procs=8):
    """mutants = [(name, old_text, new_text)].  cfg must not contain emission constraints.  -> {name: verdict}"""
    src = (core.SPEC / f"{module}.tla").read_text()
    jobs = []
    for name, old, new in mutants:
        if src.count(old) != 1:
            raise core.MachineryError(f"spec mutant {module}/{name}: anchor text occurs {src.count(old)} times")
        jobs.append((name, src.replace(old, new)))
    base = _one(module, src, cfg, "base", timeout)
    if base != "survived":
        raise core.MachineryError(f"spec mutation audit: unmutated {module} does not pass: {base}")
    with ThreadPoolExecutor(procs) as ex:
        res = list(ex.map(lambda j: _one(module, j[1], cfg, re.sub(r"\W", "_", j[0]), timeout), jobs))
    out = {n: r for (n, _), r in zip(jobs, res)}
    errs = {n: r for n, r in out.items() if r.startswith("error")}
    if errs:
        raise core.MachineryError(f"spec mutation audit of {module}: {errs}")
    if out and not any(r.startswith("killed") for r in out.values()):
        raise core.MachineryError(f"spec mutation audit of {module}: no mutant is rejected, the invariants are vacuous")
    return out
