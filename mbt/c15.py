"""C15 - observer groups.  Spec: spec/ObserverGroup.tla.

(R) TLC explores the generic group state machine once; every explored edge is replayed on real
    groups, once per (group class, broadcast attribute) pair found by introspection, with the whole
    projected state (member order, each member's own attribute values, names, parents, lookups by
    index / slice / name, observe counts) compared with the spec state after the history.
"""
import json
import random

from . import core

KINDS = ["list", "tuple", "ndarray"]


def _classes():
    from raysect.core import Point3D, Vector3D
    from raysect.optical.observer import SightLine, FibreOptic, Pixel, TargettedPixel
    from raysect.primitive import Sphere
    from cherab.tools.observers import (SightLineGroup, FibreOpticGroup, PixelGroup, TargettedPixelGroup,
                                        SpectroscopicSightLineGroup, SpectroscopicFibreOpticGroup,
                                        SpectroscopicSightLine, SpectroscopicFibreOptic)
    from cherab.tools.observers.group.base import Observer0DGroup

    def counting(cls):
        class C(cls):
            def observe(self):
                self._verif_count = getattr(self, "_verif_count", 0) + 1
        C.__name__ = "Counting" + cls.__name__
        return C

    tgt = Sphere(0.1)
    return {
        "Observer0DGroup": (Observer0DGroup, lambda c=counting(SightLine): c(), lambda: Sphere(0.1)),
        "SightLineGroup": (SightLineGroup, lambda c=counting(SightLine): c(), lambda: FibreOptic()),
        "FibreOpticGroup": (FibreOpticGroup, lambda c=counting(FibreOptic): c(), lambda: SightLine()),
        "PixelGroup": (PixelGroup, lambda c=counting(Pixel): c(), lambda: SightLine()),
        "TargettedPixelGroup": (TargettedPixelGroup, lambda c=counting(TargettedPixel): c(targets=[tgt]), lambda: Pixel()),
        "SpectroscopicSightLineGroup": (SpectroscopicSightLineGroup,
                                        lambda c=counting(SpectroscopicSightLine): c(Point3D(0, 0, 0), Vector3D(0, 0, 1)), lambda: SightLine()),
        "SpectroscopicFibreOpticGroup": (SpectroscopicFibreOpticGroup,
                                         lambda c=counting(SpectroscopicFibreOptic): c(Point3D(0, 0, 0), Vector3D(0, 0, 1)), lambda: FibreOptic()),
    }


_VALS = None


def _valuation():
    """attribute -> (value 1, value 2, numeric?)"""
    global _VALS
    if _VALS is None:
        from raysect.core import Point3D, Vector3D
        from raysect.core.workflow import SerialEngine
        from raysect.primitive import Sphere
        s1, s2 = Sphere(0.2), Sphere(0.3)
        _VALS = {
            "spectral_bins": (10, 20, True), "spectral_rays": (2, 5, True), "max_wavelength": (800.0, 850.0, True),
            "min_wavelength": (300.0, 350.0, True), "ray_extinction_prob": (0.125, 0.25, True), "ray_max_depth": (5, 7, True),
            "ray_extinction_min_depth": (2, 4, True), "ray_importance_sampling": (False, True, True),
            "ray_important_path_weight": (0.375, 0.625, True), "quiet": (True, False, True), "pixel_samples": (50, 70, True),
            "samples_per_task": (30, 40, True), "render_engine": (SerialEngine(), SerialEngine(), False),
            "acceptance_angle": (5.0, 15.0, True), "radius": (0.002, 0.004, True), "sensitivity": (2.0, 3.0, True),
            "x_width": (0.02, 0.03, True), "y_width": (0.04, 0.05, True), "targetted_path_prob": (0.5, 0.75, True),
            "targets": ([s1], [s1, s2], False), "origin": (Point3D(1, 2, 3), Point3D(4, 5, 6), False),
            "direction": (Vector3D(1, 0, 0), Vector3D(0, 1, 0), False), "display_progress": (True, False, True),
            "accumulate": (True, False, True),
        }
    return _VALS


EXCLUDE = {"observers", "names", "pipelines", "sight_lines", "name", "parent", "transform", "meta"}


def broadcast_attrs(gcls):
    out = []
    for n in dir(gcls):
        p = getattr(gcls, n, None)
        if isinstance(p, property) and n not in EXCLUDE:
            out.append((n, p.fset is not None))
    return out


def pairs():
    """[(class name, attribute a, attribute b)] for every group class and settable broadcast attribute."""
    out, unvalued, nosetter = [], [], []
    vals = _valuation()
    for cname, (gcls, mk, _) in _classes().items():
        attrs = broadcast_attrs(gcls)
        names = [n for n, has in attrs if n in vals]
        for n, has in attrs:
            if n not in vals:
                unvalued.append(f"{cname}.{n}")
                continue
            if not has:
                nosetter.append(f"{cname}.{n}")
                continue
            others = [m for m in names if m != n and dict(attrs)[m]]
            b = others[(names.index(n) + 1) % len(others)] if others else n
            out.append((cname, n, b))
    return out, unvalued, nosetter


_ND = {}


def _names_ndarray(gcls, attr):
    """the statement covers ndarray assignment only for attributes whose setter names ndarray: the table was read off the
    setters' sources at the pinned commit and is frozen in c15_ndarray_attrs.json (deciding it from the current source would
    let a change to a setter switch its own check off); attributes added later are decided from their source"""
    import inspect
    if not _ND:
        import json as _json
        import os as _os
        for name in _json.load(open(_os.path.join(_os.path.dirname(__file__), "c15_ndarray_attrs.json"))):
            _ND[tuple(name.split("."))] = True
        _ND[("_frozen",)] = {n[0] for n in list(_ND) if len(n) == 2}
    k = (gcls.__name__, attr)
    if k not in _ND:
        try:
            known_class = gcls.__name__ in _ND[("_frozen",)]
            _ND[k] = False if known_class and hasattr(gcls, attr) and _attr_at_pin(gcls, attr) else "ndarray" in inspect.getsource(getattr(gcls, attr).fset)
        except Exception:       # noqa: BLE001
            _ND[k] = False
    return _ND[k]


_PINNED = None


def _attr_at_pin(gcls, attr):
    """was (class, attribute) among the broadcast attributes at the pinned commit (then the frozen table decides)"""
    global _PINNED
    if _PINNED is None:
        import json as _json
        import os as _os
        _PINNED = set(_json.load(open(_os.path.join(_os.path.dirname(__file__), "c15_pinned_attrs.json"))))
    return f"{gcls.__name__}.{attr}" in _PINNED


def _eq(x, y):
    from raysect.core import Point3D, Vector3D
    if isinstance(x, list) and len(x) == 1 and not isinstance(y, list):
        x = x[0]
    if isinstance(y, (Point3D, Vector3D)):
        return type(x) is type(y) and abs(x.x - y.x) < 1e-12 and abs(x.y - y.y) < 1e-12 and abs(x.z - y.z) < 1e-12
    if isinstance(y, list):
        return isinstance(x, (list, tuple)) and len(x) == len(y) and all(a is b for a, b in zip(x, y))
    if isinstance(y, (bool, int, float)):
        return (x == y) and not isinstance(x, (list, tuple))
    return x is y


def _container(vs, kind):
    import numpy as np
    if kind == "tuple":
        return tuple(vs)
    if kind == "ndarray":
        return np.array(vs)
    return list(vs)


def replay(rec, ctx):
    """ctx/rec carry cls, a, b.  Returns list of violations."""
    cname, A, B = (ctx or rec)["pair"]
    gcls, mk, mk_wrong = _classes()[cname]
    vals = _valuation()
    amap = {"a": A, "b": B}
    obs = {}
    defaults = {}

    def get(i):
        if i not in obs:
            o = mk()
            n0 = (rec["h"][0].get("name0") or {}).get(str(i), "n1") if isinstance(rec["h"][0].get("name0"), dict) else (rec["h"][0].get("name0") or ["n1"] * i)[i - 1]
            if n0 != "none":
                o.name = n0
            obs[i] = o
            defaults[i] = {A: getattr(o, A), B: getattr(o, B)}
        return obs[i]

    def conc(attr, v, i=None):
        return vals[attr][v - 1]

    h = rec["h"]
    passed = [get(i) for i in h[0]["s"]]          # the caller keeps the list it hands to the group
    passed_copy = list(passed)
    group = gcls(observers=passed)
    for i in (1, 2, 3):
        get(i)
    sig0 = f"{cname}.{A}"
    outcome = "ok"
    last = h[-1]
    for e in h[1:]:
        op = e["op"]
        outcome = "ok"
        try:
            if op == "add":
                group.add_observer(get(e["o"]))
            elif op == "add_wrong_type":
                group.add_observer(mk_wrong())
            elif op == "set_observers":
                passed = [get(i) for i in e["s"]]
                passed_copy = list(passed)
                group.observers = passed
            elif op == "caller_mutates_list":
                if e["how"] == "append_to_assigned":
                    passed.append(mk_wrong())
                elif e["how"] == "clear_assigned":
                    passed.clear()
                else:
                    got = group.observers
                    if isinstance(got, list):
                        got.append(mk_wrong())
                passed_copy = list(passed)
            elif op == "assign_scalar":
                setattr(group, amap[e["a"]], conc(amap[e["a"]], e["v"]))
            elif op == "assign_seq":
                attr = amap[e["a"]]
                kind = e["kind"]
                if kind == "ndarray" and not _names_ndarray(gcls, attr):
                    kind = "list"
                setattr(group, attr, _container([conc(attr, v) for v in e["vs"]], kind))
            elif op == "assign_names":
                group.names = list(e["ns"])
            elif op == "rename":
                get(e["o"]).name = e["n"]
            elif op == "set_member":
                setattr(get(e["o"]), amap[e["a"]], conc(amap[e["a"]], e["v"]))
            elif op == "observe":
                group.observe()
        except (ValueError, TypeError) as ex:
            outcome = type(ex).__name__
        except Exception as ex:           # noqa: BLE001
            return [{"sig": f"{sig0}:{op}:raised-{type(ex).__name__}", "detail": repr(ex)[:300]}]
    # ---- compare projection with the spec state
    viol = []
    opname = last["op"] + ("." + amap[last["a"]] if "a" in last and last["op"] != "set_member" else "")
    if last["op"] == "assign_seq":
        opname += "[" + last["kind"] + "]"

    def bad(what, detail):
        viol.append({"sig": f"{cname}:{opname}:{what}", "detail": detail})

    exp_out = rec["outcome"]
    if exp_out == "ok" and outcome != "ok":
        bad(f"raised-{outcome}", f"call should succeed; history {json.dumps(h[1:])[:300]}")
        return viol
    if exp_out == "ValueError" and outcome != "ValueError":
        bad("wrong-length-not-ValueError", f"got {outcome}")
    if exp_out == "rejected" and outcome == "ok":
        bad("wrong-type-accepted", "an observer of another type was added")
    members = [obs[i] for i in rec["members"]]
    real = list(group.observers)
    if len(real) != len(members) or any(x is not y for x, y in zip(real, members)):
        bad("membership-differs", f"expected members {rec['members']}, got {len(real)} observers")
        return viol
    if len(passed) != len(passed_copy) or any(x is not y for x, y in zip(passed, passed_copy)):
        bad("group-modified-the-callers-list", f"the list assigned to observers now has {len(passed)} entries, the caller left it with {len(passed_copy)}")
    if len(group) != len(members):
        bad("len-differs", f"{len(group)} vs {len(members)}")
    for key, attr in (("a", A), ("b", B)):
        want = [defaults[i][attr] if v == 0 else conc(attr, v) for i, v in zip(rec["members"], rec[key])]
        got_members = [getattr(o, attr) for o in members]
        if not all(_eq(g, w) for g, w in zip(got_members, want)):
            bad(f"member-value-wrong.{'same' if key == 'a' else 'other'}-attr", f"{attr}: members have {got_members!r}, spec {rec[key]}")
        got_group = getattr(group, attr)
        if not (isinstance(got_group, list) and len(got_group) == len(want) and all(_eq(g, w) for g, w in zip(got_group, want))):
            bad(f"group-read-wrong.{'same' if key == 'a' else 'other'}-attr", f"{attr}: group reports {got_group!r}, spec {rec[key]}")
    if ["none" if n is None else n for n in group.names] != list(rec["names"]):
        bad("names-differ", f"{group.names} vs {rec['names']}")
    for i, o in enumerate(members):
        if o.parent is not group:
            bad("member-parent-not-group", f"member {i}")
        if group[i] is not o:
            bad("index-lookup", f"group[{i}]")
        if getattr(o, "_verif_count", 0) != rec["nobs"][i]:
            bad("observe-count", f"member {i}: observed {getattr(o, '_verif_count', 0)} times, spec {rec['nobs'][i]}")
    for i, n in rec["outsiders"]:
        if getattr(obs[i], "_verif_count", 0) != n:
            bad("observe-count-nonmember", f"observer {i}")
    for i, va, vb in rec.get("outvals", []):
        for attr, vv in ((A, va), (B, vb)):
            want = defaults[i][attr] if vv == 0 else conc(attr, vv)
            if not _eq(getattr(obs[i], attr), want):
                bad("non-member-value-changed", f"observer {i} (not in the group) has {attr} = {getattr(obs[i], attr)!r}, spec value id {vv}")
    # every valid index (negative ones too) and a family of slices, with Python's sequence semantics; one past either end raises
    n_ = len(members)
    for i in range(-n_, 0):
        try:
            if group[i] is not members[i]:
                bad("index-lookup", f"group[{i}]")
        except Exception as ex:           # noqa: BLE001
            bad("index-lookup", f"group[{i}] raised {type(ex).__name__} on a group of {n_}")
    for i in (n_, -n_ - 1):
        try:
            group[i]
            bad("index-out-of-range-accepted", f"group[{i}] on a group of {n_}")
        except IndexError:
            pass
        except Exception as ex:           # noqa: BLE001
            bad("index-out-of-range-raised-" + type(ex).__name__, f"group[{i}]")
    for sl_ in (slice(0, 2), slice(1, None), slice(None, None, 2), slice(None, None, -1), slice(-2, None), slice(5, 9)):
        try:
            got_ = list(group[sl_])
            if len(got_) != len(members[sl_]) or any(a is not b for a, b in zip(got_, members[sl_])):
                bad("slice-lookup", f"group[{sl_}]")
        except Exception as ex:           # noqa: BLE001
            bad("slice-lookup", f"group[{sl_}] raised {type(ex).__name__}")
    for n, i in rec["byname"]:
        try:
            if group[n] is not obs[i]:
                bad("name-lookup", f"group[{n!r}]")
        except Exception as ex:           # noqa: BLE001
            bad("name-lookup", f"group[{n!r}] raised {type(ex).__name__}")
    for n in rec["dup"]:
        try:
            group[n]
            bad("ambiguous-name-accepted", n)
        except ValueError:
            pass
    for n in rec.get("absent", []):
        try:
            group[n]
            bad("absent-name-found", n)
        except ValueError:
            pass
        except Exception as ex:           # noqa: BLE001
            bad("absent-name-lookup-raised-" + type(ex).__name__, n)
    return viol


# ----------------------------------------------------------------------------- BolometerCamera (membership only)

def replay_bolo(rec, ctx):
    from raysect.core import Point3D, Vector3D
    from raysect.optical import World
    from cherab.tools.observers import BolometerCamera, BolometerFoil, BolometerSlit
    h = rec["h"]
    if any(e["op"] in ("assign_scalar", "assign_seq", "assign_names", "set_member") for e in h[1:]):
        return None
    from raysect.primitive import Sphere
    world = World()
    cam = BolometerCamera(parent=world, name="cam")
    slit = BolometerSlit("slit", Point3D(0, 0, 0), Vector3D(1, 0, 0), 0.005, Vector3D(0, 1, 0), 0.005, parent=cam)

    class Foil(BolometerFoil):
        def observe(self):
            self._verif_count = getattr(self, "_verif_count", 0) + 1

    class FakePipe:
        class value:
            mean = 0.0

    obs = {}
    for i in (1, 2, 3):
        f = Foil(f"f{i}", Point3D(0, 0, -0.05 * i), Vector3D(1, 0, 0), 0.002, Vector3D(0, 1, 0), 0.002, slit)
        obs[i] = f
    passed = [obs[i] for i in h[0]["s"]]
    passed_copy = list(passed)
    cam.foil_detectors = passed
    outcome = "ok"
    for e in h[1:]:
        outcome = "ok"
        try:
            if e["op"] == "add":
                cam.add_foil_detector(obs[e["o"]])
            elif e["op"] == "add_wrong_type":
                cam.add_foil_detector(slit)
            elif e["op"] == "set_observers":
                passed = [obs[i] for i in e["s"]]
                passed_copy = list(passed)
                cam.foil_detectors = passed
            elif e["op"] == "caller_mutates_list":
                if e["how"] == "append_to_assigned":
                    passed.append(Sphere(0.1))
                elif e["how"] == "clear_assigned":
                    passed.clear()
                else:
                    cam.foil_detectors.append(Sphere(0.1))
                passed_copy = list(passed)
            elif e["op"] == "observe":
                cam.observe()
        except (TypeError, ValueError) as ex:
            outcome = type(ex).__name__
    viol = []

    def bad(what, detail):
        viol.append({"sig": f"BolometerCamera:{h[-1]['op']}:{what}", "detail": detail})
    if rec["outcome"] == "rejected" and outcome == "ok":
        bad("wrong-type-accepted", "")
    if rec["outcome"] == "ok" and outcome != "ok":
        bad(f"raised-{outcome}", "")
        return viol
    members = [obs[i] for i in rec["members"]]
    real = cam.foil_detectors
    if len(real) != len(members) or any(x is not y for x, y in zip(real, members)):
        bad("membership-differs", f"expected {rec['members']}")
        return viol
    if len(cam) != len(members) or list(cam) != members:
        bad("len-or-iter-differs", "")
    if len(passed) != len(passed_copy) or any(x is not y for x, y in zip(passed, passed_copy)):
        bad("group-modified-the-callers-list", f"{len(passed)} vs {len(passed_copy)}")
    for i, o in enumerate(members):
        if o.parent is not cam:
            bad("member-parent-not-group", f"member {i}")
        if cam[i] is not o:
            bad("index-lookup", f"cam[{i}]")
        if cam[o.name] is not o:
            bad("name-lookup", o.name)
        if getattr(o, "_verif_count", 0) != rec["nobs"][i]:
            bad("observe-count", f"member {i}: {getattr(o, '_verif_count', 0)} vs {rec['nobs'][i]}")
    return viol


# ----------------------------------------------------------------------------- check

CFG = """SPECIFICATION Spec
CONSTANTS
  Obs = {{1, 2, 3}}
  Vals = {{1, 2}}
  Names = {{"n1", "n2", "none"}}
  Kinds = {{"list", "tuple", "ndarray"}}
  MaxHist = {maxhist}
INVARIANT TypeOK
INVARIANT MembersParented
PROPERTY RejectedIsNoop
PROPERTY AssignPost
PROPERTY ObserveOnce
PROPERTY OutsidersUntouched
VIEW View
ACTION_CONSTRAINT Emit
"""


def _job(args, ctx):
    pair, recs = args
    out = []
    for r in recs:
        if pair[0] == "BolometerCamera":
            vs = replay_bolo(r, None)
        else:
            vs = replay(r, {"pair": pair})
        if vs:
            out.append((r, vs))
    return out


SPEC_MUTANTS = [
    ("scalar-assignment-reaches-non-members", "AssignScalar(a, v) == /\\ val' = [val EXCEPT ![a] = [o \\in Obs |-> IF o \\in Rng(members) THEN v ELSE @[o]]]",
     "AssignScalar(a, v) == /\\ val' = [val EXCEPT ![a] = [o \\in Obs |-> v]]"),
    ("scalar-assignment-leaks-into-other-attribute", "AssignScalar(a, v) == /\\ val' = [val EXCEPT ![a] = [o \\in Obs |-> IF o \\in Rng(members) THEN v ELSE @[o]]]",
     "AssignScalar(a, v) == /\\ val' = [b \\in Attrs |-> [o \\in Obs |-> IF o \\in Rng(members) THEN v ELSE val[b][o]]]"),
    ("wrong-length-partially-applied", "    /\\ Len(vs) # Len(members)\n    /\\ outcome' = \"ValueError\"\n    /\\ UNCHANGED <<members, val, name, parent, nobs>> /\\ Log([op |-> \"assign_seq\"",
     "    /\\ Len(vs) # Len(members)\n    /\\ outcome' = \"ValueError\"\n    /\\ val' = [val EXCEPT ![a] = [o \\in Obs |-> 1]] /\\ UNCHANGED <<members, name, parent, nobs>> /\\ Log([op |-> \"assign_seq\""),
    ("observers-assignment-does-not-parent", "/\\ parent' = [o \\in Obs |-> IF o \\in Rng(s) THEN \"group\" ELSE parent[o]]", "/\\ parent' = parent"),
    ("observe-counts-everybody", "Observe == /\\ nobs' = [o \\in Obs |-> IF o \\in Rng(members) THEN nobs[o] + 1 ELSE nobs[o]]", "Observe == /\\ nobs' = [o \\in Obs |-> nobs[o] + 1]"),
    ("elementwise-assignment-reversed", "THEN vs[CHOOSE i \\in 1..Len(members) : members[i] = o] ELSE @[o]]]", "THEN vs[Len(members) + 1 - CHOOSE i \\in 1..Len(members) : members[i] = o] ELSE @[o]]]"),
]


def run(v):
    depth = 2 if v.tier == "quick" else 3
    if v.tier == "thorough":
        from . import specmut
        v.notes["spec_mutants"] = specmut.audit("ObserverGroup", CFG.format(maxhist=2).replace("ACTION_CONSTRAINT Emit\n", ""), SPEC_MUTANTS)
    res = core.run_tlc("ObserverGroup", CFG.format(maxhist=depth), workers=1, seed=v.seed, timeout=3000)
    core.tlc_must_pass(res, "ObserverGroup")
    v.add_tlc(res, "ObserverGroup")
    edges = [r for r in res.records if "h" in r]
    ops = {}
    for r in edges:
        k = r["h"][-1]["op"] + ("/" + r["outcome"] if r["outcome"] != "ok" else "")
        ops[k] = ops.get(k, 0) + 1
    for need in ("add", "add_wrong_type/rejected", "set_observers", "assign_scalar", "assign_seq", "assign_seq/ValueError",
                 "assign_names", "assign_names/ValueError", "set_member", "rename", "observe", "caller_mutates_list"):
        if not ops.get(need):
            raise core.MachineryError(f"vacuity: action {need} never taken by TLC")
    v.notes["edges_per_action"] = ops
    shallow = [r for r in edges if len(r["h"]) <= 2]
    deep = [r for r in edges if len(r["h"]) > 2]
    prs, unvalued, nosetter = pairs()
    rng = random.Random(v.seed)
    per_pair = 1200 if v.tier == "quick" else 12000
    jobs = []
    byhist = {json.dumps(r["h"]): r for r in edges}
    for p in prs:
        sample = shallow + (deep if len(deep) <= per_pair else rng.sample(deep, per_pair))
        # prefix-closed: every proper prefix of a sampled history is replayed too, so that a violation is
        # attributed to the first call after which the real group differs from the spec state
        seen = {json.dumps(r["h"]) for r in sample}
        for r in list(sample):
            for k in range(2, len(r["h"])):
                key = json.dumps(r["h"][:k])
                if key not in seen and key in byhist:
                    seen.add(key)
                    sample.append(byhist[key])
        for i in range(0, len(sample), 400):
            jobs.append((p, sample[i:i + 400]))
    bolo = [r for r in edges if not any(e["op"] in ("assign_scalar", "assign_seq", "assign_names", "set_member") for e in r["h"][1:])]
    for i in range(0, len(bolo), 400):
        jobs.append((("BolometerCamera", "-", "-"), bolo[i:i + 400]))
    out = core.fan_out("mbt.c15", "_job", jobs, None, chunk=1)
    n = sum(len(j[1]) for j in jobs)
    failed = set()
    for job, lst in zip(jobs, out):
        for rec, vs in lst:
            failed.add((job[0], json.dumps(rec["h"])))
    for job, lst in zip(jobs, out):
        for rec, vs in lst:
            if any((job[0], json.dumps(rec["h"][:k])) in failed for k in range(2, len(rec["h"]))):
                continue          # already reported at the shorter history
            for x in vs:
                v.violation(x["sig"], x["detail"], dict(rec, pair=list(job[0])))
    v.add_cases(n, keys=[f"{j[0][0]}.{j[0][1]}|{json.dumps(r['h'])}" for j in jobs for r in j[1]])
    v.sample({"pair": list(prs[0]), "history": edges[len(edges) // 2]["h"], "spec_state": {k: edges[len(edges) // 2][k] for k in ("members", "a", "b", "names", "nobs", "outcome")}})
    v.notes["class_attribute_pairs"] = len(prs)
    v.notes["attributes_without_valuation_not_checked"] = unvalued
    v.notes["getter_without_setter"] = nosetter
    for x in nosetter:
        cname, attr = x.split(".")
        v.violation(f"{cname}:assign.{attr}:attribute-has-no-setter", f"group attribute {x} has a getter but assigning to it is impossible (no setter bound to that name)", None)
    v.assumptions += ["attribute values: two valid concrete values per attribute chosen by the harness (table in mbt/c15.py); 0 = constructor default",
                      "ndarray assignment only for attributes whose setter names ndarray", "observe() counted with subclasses overriding observe()"]
    return v.finish(rule="one case = one TLC-explored edge of ObserverGroup.tla replayed on one (group class, attribute) pair with the full projected state compared; "
                         "distinct = distinct (pair, history)")


def replay_file_record(rec):
    return replay(rec, None)


def selftest():
    rec = {"h": [{"op": "init", "s": [1, 2]}, {"op": "assign_scalar", "a": "a", "v": 1}], "members": [1, 2], "a": [1, 1], "b": [0, 0],
           "names": ["n1", "n1"], "byname": [], "dup": ["n1"], "nobs": [0, 0], "outsiders": [[3, 0]], "outcome": "ok",
           "pair": ["SightLineGroup", "spectral_bins", "pixel_samples"]}
    good = replay(rec, None)
    bad = replay(dict(rec, a=[1, 2]), None)
    ok = (not good) and bool(bad)
    print("C15 selftest:", "ok" if ok else "FAILED", good[:1], bad[:1])
    return 0 if ok else 2
