"""C18 - laser profiles and spectra.  Spec: spec/LaserObjects.tla.

(R) every TLC-explored setter / invalid-setter / read history is replayed on the real class (the profile
    attached to a real Laser node); every read-out is compared with a freshly constructed object, the
    segment list with the exact rational tiling TLC computed, and the documented normalisation identities
    (cross-section / volume integral, per-bin spectral power) are evaluated on the final object.
"""
import json
import math

from . import core

KINDS = ["uniform", "cbg", "trivariate", "gaussbeam", "constspec", "gaussspec"]
C = 299792458.0
VAL = {"energy_density": {1: 1e3, 2: 2.5e3}, "pulse_energy": {1: 1.0, 2: 3.0}, "pulse_length": {1: 1e-8, 2: 2e-8},
       "stddev_x": {1: 0.01, 2: 0.015}, "stddev_y": {1: 0.02, 2: 0.012}, "mean_z": {1: 0.3, 2: 0.5}, "waist_z": {1: 0.4, 2: 0.6},
       "stddev_waist": {1: 0.002, 2: 0.003}, "laser_wavelength": {1: 1060.0, 2: 532.0}, "laser_length": {1: 1.0, 2: 0.15},
       "laser_radius": {1: 0.05, 2: 0.10}, "min_wavelength": {1: 1058.0, 2: 1059.0}, "max_wavelength": {1: 1062.0, 2: 1061.5},
       "bins": {1: 1, 2: 7}, "mean": {1: 1060.0, 2: 1060.3}, "stddev": {1: 0.2, 2: 0.35}}


_DEFAULTS = {}


def default_of(obj, p):
    """the constructor default of parameter p of obj's class (read off a default-constructed object)"""
    cls = type(obj)
    if cls not in _DEFAULTS:
        _DEFAULTS[cls] = cls()
    return float(getattr(_DEFAULTS[cls], p))


def conc(p, v, obj=None):
    from raysect.core import Vector3D
    if v == 3 and p != "polarization":
        return default_of(obj, p)
    if p == "polarization":
        return Vector3D(0, 1, 0) if v == 1 else Vector3D(1, 1, 0)
    if v == 0:
        return 0 if p == "bins" else 0.0
    if v == -1:
        return -1 if p == "bins" else -1.0
    if v == -2:
        return obj.max_wavelength + 1.0 if p == "min_wavelength" else obj.min_wavelength - 0.5
    return VAL[p][v]


def build(kind, par):
    from cherab.core.model.laser import (UniformEnergyDensity, ConstantBivariateGaussian, TrivariateGaussian, GaussianBeamAxisymmetric,
                                         ConstantSpectrum, GaussianSpectrum)
    # value id 3: the argument is omitted, the constructor's default applies
    c = {p: conc(p, v) for p, v in par.items() if not (v == 3 and p != "polarization")}
    cls = {"uniform": UniformEnergyDensity, "cbg": ConstantBivariateGaussian, "trivariate": TrivariateGaussian, "gaussbeam": GaussianBeamAxisymmetric}.get(kind)
    if cls is not None:
        return cls(**c)
    if kind == "constspec":
        return ConstantSpectrum(c["min_wavelength"], c["max_wavelength"], c["bins"])
    return GaussianSpectrum(c["min_wavelength"], c["max_wavelength"], c["bins"], c["mean"], c["stddev"])


def _safe(f):
    try:
        return f()
    except Exception as e:       # noqa: BLE001
        return "raised-" + type(e).__name__


PTS = [(0.0, 0.0, 0.3), (0.01, 0.0, 0.3), (0.0, 0.015, 0.5), (0.005, -0.01, 0.9), (0.001, 0.002, 0.45)]


def _geom(lst):
    out = []
    for g in lst:
        t = g.transform
        out.append([float(g.radius), float(g.height), float(t[2, 3])])
    return out


def readout(kind, obj, laser=None):
    import numpy as np
    out = {}
    if kind in ("constspec", "gaussspec"):
        for a in ("min_wavelength", "max_wavelength", "bins", "delta_wavelength"):
            out[a] = _safe(lambda a=a: float(getattr(obj, a)))
        out["wavelengths"] = _safe(lambda: np.asarray(obj.wavelengths).tolist())
        out["power_spectral_density"] = _safe(lambda: np.asarray(obj.power_spectral_density).tolist())
        out["get_min_wavelenth"] = _safe(lambda: float(obj.get_min_wavelenth()))
        out["get_max_wavelenth"] = _safe(lambda: float(obj.get_max_wavelenth()))
        out["get_spectral_bins"] = _safe(lambda: float(obj.get_spectral_bins()))
        out["get_delta_wavelength"] = _safe(lambda: float(obj.get_delta_wavelength()))
        out["evaluate"] = _safe(lambda: [float(obj(w)) for w in (1057.0, 1059.5, 1060.0, 1060.7, 1063.0)])
        for a in ("mean", "stddev"):
            if hasattr(obj, a):
                out[a] = _safe(lambda a=a: float(getattr(obj, a)))
        return out
    out["energy_density"] = _safe(lambda: [float(obj.get_energy_density(*p)) for p in PTS])
    out["polarization"] = _safe(lambda: [round(x, 15) for p in PTS[:2] for x in (lambda v: (v.x, v.y, v.z))(obj.get_polarization(*p))])
    out["pointing"] = _safe(lambda: [x for x in (lambda v: (v.x, v.y, v.z))(obj.get_pointing(*PTS[0]))])
    out["generate_geometry"] = _safe(lambda: _geom(obj.generate_geometry()))
    for a in ("energy_density", "pulse_energy", "pulse_length", "stddev_x", "stddev_y", "mean_z", "waist_z", "stddev_waist", "laser_wavelength",
              "laser_length", "laser_radius"):
        if hasattr(type(obj), a):
            out["param." + a] = _safe(lambda a=a: float(getattr(obj, a)))
    if laser is not None:
        out["laser_node_geometry"] = _safe(lambda: _geom(laser.get_geometry()))
        out["laser_node_children"] = _safe(lambda: sorted(_geom([c for c in laser.children])))
    return out


def attach(profile):
    from raysect.optical import World
    from cherab.core.laser import Laser
    la = Laser(parent=World())
    la.laser_profile = profile
    return la


def _eq(a, b):
    if isinstance(a, str) or isinstance(b, str):
        return a == b
    return core.close(a, b, rtol=1e-13, atol=0.0) if not isinstance(a, float) else core.close(a, b, rtol=1e-13)


def identities(kind, obj, par, seg, quick):
    """Documented normalisation identities on the final object -> list of (what, detail)."""
    import numpy as np
    bad = []
    if kind in ("constspec", "gaussspec"):
        mn, mx, bins = obj.min_wavelength, obj.max_wavelength, obj.bins
        psd = np.asarray(obj.power_spectral_density)
        d = (mx - mn) / bins
        if obj.get_max_wavelenth() != mx or obj.get_min_wavelenth() != mn:
            bad.append(("reported-range-wrong", f"get_min/max_wavelenth() = {obj.get_min_wavelenth()}, {obj.get_max_wavelenth()} for range ({mn}, {mx})"))
        if len(psd) != bins or not core.close(obj.delta_wavelength, d, rtol=1e-13):
            bad.append(("binning-wrong", f"{len(psd)} bins, delta {obj.delta_wavelength}"))
            return bad
        for i in range(bins):
            lo, hi = mn + i * d, mn + (i + 1) * d
            if kind == "constspec":
                want = 1.0 / bins
            else:
                s = obj.stddev * math.sqrt(2.0)
                want = 0.5 * (math.erf((hi - obj.mean) / s) - math.erf((lo - obj.mean) / s))
            if not core.close(psd[i] * d, want, rtol=1e-10, atol=1e-15):
                bad.append(("bin-power-not-integral-of-psd", f"bin {i}: {psd[i] * d!r} vs {want!r}"))
                break
        return bad
    # segments vs the spec's admissible tilings: n pieces [(i-1) L/n, i L/n], 1 <= n <= nmax, n >= nmax - 1, all of radius r
    L = seg["length"][0] / seg["length"][1]
    r = seg["radius"][0] / seg["radius"][1]
    got = _geom(obj.generate_geometry())
    n = len(got)
    want = [[r, L / n, (i * L) / n] for i in range(n)] if n else []
    if not (max(1, seg["nmax"] - 1) <= n <= seg["nmax"]) or not all(core.close(g, w, rtol=1e-12, atol=1e-15) for g, w in zip(got, want)):
        bad.append(("segments-do-not-tile-as-specified", f"{n} pieces (spec allows {max(1, seg['nmax'] - 1)}..{seg['nmax']}): got {got[:3]}.. want {want[:3]}.."))
    # the documented closed forms, point by point
    def g(x, s):
        return math.exp(-0.5 * (x / s) ** 2) / (math.sqrt(2 * math.pi) * s)
    for (x, y, z) in PTS:
        if kind == "uniform":
            want = obj.energy_density
        elif kind == "cbg":
            want = obj.pulse_energy / (C * obj.pulse_length) * g(x, obj.stddev_x) * g(y, obj.stddev_y)
        elif kind == "trivariate":
            want = obj.pulse_energy * g(x, obj.stddev_x) * g(y, obj.stddev_y) * g(z - obj.mean_z, C * obj.pulse_length)
        else:
            zr = 2 * math.pi * obj.stddev_waist ** 2 / (obj.laser_wavelength * 1e-9)
            sg = obj.stddev_waist * math.sqrt(1 + ((z - obj.waist_z) / zr) ** 2)
            want = obj.pulse_energy / (C * obj.pulse_length) * g(x, sg) * g(y, sg)
        got_ = obj.get_energy_density(x, y, z)
        if not core.close(got_, want, rtol=1e-11, atol=1e-300):
            bad.append(("energy-density-differs-from-documented-formula", f"at {(x, y, z)}: {got_!r} vs {want!r} with reported parameters "
                        + str({a: getattr(obj, a) for a in ('pulse_energy', 'pulse_length', 'stddev_x', 'stddev_y', 'mean_z') if hasattr(obj, a)})))
            break
    if kind in ("cbg", "gaussbeam", "trivariate"):
        ep, tau = obj.pulse_energy, obj.pulse_length
        n = 81 if quick else 161
        if kind == "cbg":
            sx, sy = obj.stddev_x, obj.stddev_y
            zs = [(0.1, sx, sy), (0.7, sx, sy)]
        elif kind == "gaussbeam":
            zr = 2 * math.pi * obj.stddev_waist ** 2 / (obj.laser_wavelength * 1e-9)
            zs = []
            for z in (0.1, 0.55, 0.9):
                s = obj.stddev_waist * math.sqrt(1 + ((z - obj.waist_z) / zr) ** 2)
                zs.append((z, s, s))
        else:
            zs = []
        for z, sx, sy in zs:
            xs = np.linspace(-8 * sx, 8 * sx, n)
            ys = np.linspace(-8 * sy, 8 * sy, n)
            tot = sum(obj.get_energy_density(x, y, z) for x in xs for y in ys) * (xs[1] - xs[0]) * (ys[1] - ys[0])
            want = ep / (C * tau)
            if not core.close(tot, want, rtol=1e-8):
                bad.append(("cross-section-integral-differs", f"z={z}: {tot!r} vs Ep/(c tau) = {want!r}"))
        if kind == "trivariate":
            sx, sy, sz, mz = obj.stddev_x, obj.stddev_y, C * tau, obj.mean_z
            m = 25 if quick else 41
            xs, ys, zz = np.linspace(-6.5 * sx, 6.5 * sx, m), np.linspace(-6.5 * sy, 6.5 * sy, m), np.linspace(mz - 6.5 * sz, mz + 6.5 * sz, m)
            tot = sum(obj.get_energy_density(x, y, z) for x in xs for y in ys for z in zz) * (xs[1] - xs[0]) * (ys[1] - ys[0]) * (zz[1] - zz[0])
            if not core.close(tot, ep, rtol=1e-7):
                bad.append(("volume-integral-differs", f"{tot!r} vs Ep = {ep!r}"))
    return bad


def replay_any(rec, ctx):
    return replay_tiling(rec, ctx) if rec.get("tiling") else replay(rec, ctx)


def replay(rec, ctx):
    kind = (ctx or rec)["kind"]
    quick = (ctx or {}).get("quick", True)
    h = rec["h"]
    obj = build(kind, h[0]["par"])
    laser = attach(obj) if kind not in ("constspec", "gaussspec") else None
    # a second object with the other parameter values lives alongside, untouched: objects share nothing
    other = build(kind, {p: (v if p == "polarization" else (2 if v == 1 else 1)) for p, v in h[0]["par"].items()})
    olaser = attach(other) if laser is not None else None
    other_before = readout(kind, other, olaser)
    outcome = "ok"
    for e in h[1:]:
        outcome = "ok"
        try:
            if e["op"] == "set":
                if e["p"] == "polarization":
                    obj.set_polarization(conc("polarization", e["v"]))
                else:
                    setattr(obj, e["p"], conc(e["p"], e["v"], obj))
            elif e["op"] == "reattach":
                if laser is not None:
                    laser.laser_profile = obj
            else:
                readout(kind, obj, laser)
        except ValueError:
            outcome = "ValueError"
        except Exception as ex:      # noqa: BLE001
            outcome = "raised-" + type(ex).__name__
    last = h[-1]
    opname = (f"set.{last['p']}" + ("[invalid]" if rec["outcome"] != "ok" else "")) if last["op"] == "set" else last["op"]
    viol = []

    def bad(what, detail):
        viol.append({"sig": f"{kind}:{opname}:{what}", "detail": detail})
    if outcome != rec["outcome"]:
        bad(f"outcome-{outcome}-expected-{rec['outcome']}", json.dumps(h[1:])[:300])
        if outcome.startswith("raised"):
            return viol
    a = readout(kind, obj, laser)          # read before the twin is constructed
    fresh = build(kind, rec["par"])
    flaser = attach(fresh) if laser is not None else None
    b = readout(kind, fresh, flaser)
    other_after = readout(kind, other, olaser)
    for k in other_before:
        if not _eq(other_after[k], other_before[k]):
            bad(f"another-object-changed.{k}", f"an untouched object read {str(other_before[k])[:120]} before and {str(other_after[k])[:120]} after this history")
    for k in b:
        if not _eq(a[k], b[k]):
            bad(f"differs-from-fresh.{k}", f"after history {str(a[k])[:150]} ; fresh {str(b[k])[:150]}")
    for what, detail in identities(kind, obj, rec["par"], rec["segments"], quick):
        bad(what, detail)
    return viol


TILING_CFG = """SPECIFICATION Spec
CONSTANTS
  LMax = {lmax}
  RMax = {rmax}
INVARIANT Tiles
INVARIANT EmitCase
"""
PROFILES = ["uniform", "cbg", "trivariate", "gaussbeam"]


def replay_tiling(rec, ctx):
    """One (length, radius) pair of LaserTiling.tla on every profile class: through the constructor, through the setters in
    both orders, and as the children of a Laser node the profile is attached to."""
    from cherab.core.model.laser import UniformEnergyDensity, ConstantBivariateGaussian, TrivariateGaussian, GaussianBeamAxisymmetric
    L = rec["L"][0] / rec["L"][1]
    r = rec["r"][0] / rec["r"][1]
    adm = set(rec["admissible"])
    viol = []
    for kind, cls in zip(PROFILES, (UniformEnergyDensity, ConstantBivariateGaussian, TrivariateGaussian, GaussianBeamAxisymmetric)):
        routes = {}
        routes["constructor"] = lambda: cls(laser_length=L, laser_radius=r)

        def by_setters(order):
            o = cls()
            la = attach(o)
            for p in order:
                setattr(o, p, L if p == "laser_length" else r)
            return o, la
        for route in ("constructor", "set-length-then-radius", "set-radius-then-length"):
            try:
                if route == "constructor":
                    o = cls(laser_length=L, laser_radius=r)
                    la = attach(o)
                else:
                    o, la = by_setters(("laser_length", "laser_radius") if route.startswith("set-length") else ("laser_radius", "laser_length"))
                lists = {"generate_geometry": _geom(o.generate_geometry()), "laser-node-children": sorted(_geom(list(la.children)), key=lambda g: g[2])}
            except Exception as ex:       # noqa: BLE001
                viol.append({"sig": f"{kind}:tiling:{route}:raised-{type(ex).__name__}", "detail": f"L={L} r={r}: {ex!r}"[:200]})
                continue
            for name, got in lists.items():
                n = len(got)
                want = [[r, L / n, (i * L) / n] for i in range(n)] if n else []
                if n not in adm or not all(core.close(g, w, rtol=1e-12, atol=1e-15) for g, w in zip(got, want)):
                    viol.append({"sig": f"{kind}:segments-do-not-tile-the-laser-length",
                                 "detail": f"L={L} r={r} via {route} ({name}): {n} pieces (admissible {sorted(adm)}); last piece {got[-1] if got else None}, wanted {want[-1] if want else None}"})
                    break
            else:
                continue
            break
    return viol


CFG = """SPECIFICATION Spec
CONSTANTS
  Kind = "{kind}"
  MaxHist = {maxhist}
INVARIANT NoStale
INVARIANT SegmentsTile
VIEW View
ACTION_CONSTRAINT Emit
"""


SPEC_MUTANTS = {
    "cbg": [("energy-setter-does-not-recompute", 'THEN {} ELSE {"efun"}', 'THEN {} ELSE {}'),
            ("polarization-setter-does-not-recompute", 'IF p = "polarization" THEN {"polfun"}', 'IF p = "polarization" THEN {}')],
    "gaussspec": [("spectrum-setter-does-not-rebin", 'Recomputes(p) == IF IsSpectrum THEN {"binned"}', 'Recomputes(p) == IF IsSpectrum THEN {}'),
                  ("refused-value-assigned", "    /\\ outcome' = \"ValueError\"\n    /\\ UNCHANGED <<par, cache, touched, attached>>", "    /\\ outcome' = \"ValueError\"\n    /\\ par' = [par EXCEPT ![p] = 1] /\\ UNCHANGED <<cache, touched, attached>>")],
}


def run(v):
    if v.tier == "thorough":
        from . import specmut
        v.notes["spec_mutants"] = {k: specmut.audit("LaserObjects", CFG.format(kind=k, maxhist=2).replace("ACTION_CONSTRAINT Emit\n", ""), m) for k, m in SPEC_MUTANTS.items()}
    depth = 3 if v.tier == "quick" else 4
    for kind in KINDS:
        res = core.run_tlc("LaserObjects", CFG.format(kind=kind, maxhist=depth), workers=1, seed=v.seed, tag="C18-" + kind, timeout=3000)
        core.tlc_must_pass(res, "LaserObjects/" + kind)
        v.add_tlc(res, "LaserObjects/" + kind)
        edges = [r for r in res.records if "h" in r]
        inits = {json.dumps(r["h"][0]): r for r in edges}
        edges = [{"h": [r["h"][0]], "par": r["h"][0]["par"], "outcome": "ok", "segments": None} for r in inits.values()] + edges
        # the initial states need their own expected segments: take them from an edge that leaves par unchanged
        for e in edges:
            if e["segments"] is None:
                same = [r for r in edges if r["par"] == e["par"] and r.get("segments") is not None]
                e["segments"] = same[0]["segments"]
        ops = {(r["h"][-1]["op"], r["outcome"]) for r in edges}
        for need in (("set", "ok"), ("set", "ValueError"), ("read", "ok")):
            if need not in ops:
                raise core.MachineryError(f"vacuity: {need} never taken for {kind}")
        out = core.fan_out("mbt.c18", "replay", edges, {"kind": kind, "quick": v.tier == "quick"})
        failed = {json.dumps(r["h"]) for r, vs in zip(edges, out) if vs}
        for r, vs in zip(edges, out):
            if any(json.dumps(r["h"][:k]) in failed for k in range(1, len(r["h"]))):
                continue
            for x in vs:
                v.violation(x["sig"], x["detail"], dict(r, kind=kind))
        v.add_cases(len(edges), keys=[kind + json.dumps(r["h"]) for r in edges])
        v.sample({"kind": kind, "history": edges[len(edges) // 2]["h"], "segments": edges[len(edges) // 2]["segments"]})
    # dense (length, radius) table: the segments tile the laser length exactly once
    lmax, rmax = (40, 16) if v.tier == "quick" else (80, 40)
    res = core.run_tlc("LaserTiling", TILING_CFG.format(lmax=lmax, rmax=rmax), workers=1, seed=v.seed, tag="C18-tiling", timeout=3000)
    core.tlc_must_pass(res, "LaserTiling")
    v.add_tlc(res, "LaserTiling")
    cases = [r for r in res.records if r.get("tiling")]
    if len(cases) != lmax * rmax or not any(len(c["admissible"]) == 1 for c in cases) or max(c["nmax"] for c in cases) < 100:
        raise core.MachineryError("vacuity: LaserTiling table incomplete")
    out = core.fan_out("mbt.c18", "replay_tiling", cases, {})
    for r, vs in zip(cases, out):
        for x in vs:
            v.violation(x["sig"], x["detail"], dict(r))
    v.add_cases(len(cases), keys=["tiling" + json.dumps([r["L"], r["r"]]) for r in cases])
    v.sample({"tiling_case": cases[len(cases) // 2]})
    v.assumptions += ["cross-section / volume integrals by tensor trapezoid quadrature on +-8 sigma (+-6.5 sigma in 3-D), tolerance 1e-8 / 1e-7",
                      "speed of light CODATA; two concrete values per parameter (mbt/c18.py)"]
    return v.finish(rule="one case = one TLC-explored setter/read history replayed on the real profile (attached to a Laser node) or spectrum, compared with a freshly "
                         "constructed object, TLC's rational segment tiling and the documented normalisation identities; distinct = distinct (class, history)")


def selftest():
    rec = {"h": [{"op": "init", "par": {"min_wavelength": 1, "max_wavelength": 1, "bins": 1}}, {"op": "set", "p": "bins", "v": 2}],
           "par": {"min_wavelength": 1, "max_wavelength": 1, "bins": 2}, "outcome": "ok", "segments": [], "kind": "constspec"}
    good = replay(rec, None)
    bad = replay(dict(rec, par={"min_wavelength": 1, "max_wavelength": 1, "bins": 1}), None)
    ok = not [g for g in good if "reported-range" not in g["sig"]] and bool(bad)
    print("C18 selftest:", "ok" if ok else "FAILED", good[:1], bad[:1])
    return 0 if ok else 2
