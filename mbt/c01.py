"""C01 - no stale derived state.  Spec: spec/Scene.tla.

(T) random long histories recorded from the real scene (with the callbacks each call notified) are validated by TLC
    against the specification's actions and wiring table (Trace_Scene.tla).
(R) every edge TLC explores (histories of public mutators interleaved with observations, from a freshly
    built and from a fully observed scene) is replayed on a real World/Plasma/Beam/Laser scene with mock
    atomic data; afterwards every observation (3 pairs of sight lines, beam density / direction, plasma
    scalars, laser segment structure) is compared with a scene built from scratch in the final
    configuration.  Both sides run the same code on the same inputs, so rtol = 1e-11.
"""
import json
import random

from . import core
from . import scene as S

_FRESH = {}


def fresh_obs(cfg):
    key = json.dumps(cfg, sort_keys=True)
    if key not in _FRESH:
        if len(_FRESH) > 4000:
            _FRESH.clear()
        try:
            _FRESH[key] = S.observe(S.build(cfg))
        except Exception as e:           # noqa: BLE001
            _FRESH[key] = {"build": "raised-" + type(e).__name__}
    return _FRESH[key]


def _nm(e):
    via = e.get("via", "assign")
    return f"set.{e['p']}" + ("" if via in ("assign",) or (e["p"] == "P_comp" and via == "set") else f"[{via}]")


def _diff(a, b):
    return [k for k in b if k not in a or not S.same(a[k], b[k])]


def _run(h, stepwise):
    """Execute history h; -> (violations, final cfg). With stepwise, compare with a fresh scene after every set."""
    sc = S.build(S.DEFAULT)
    if h[0].get("observed"):
        S.observe(sc)
    for i, e in enumerate(h[1:], 1):
        try:
            S.apply(sc, e)
        except Exception as ex:          # noqa: BLE001
            what = _nm(e) if e["op"] == "set" else f"observe.{e.get('k')}"
            return [{"sig": f"{what}:raised-{type(ex).__name__}", "detail": f"{repr(ex)[:200]} after {json.dumps(h[1:i])}"}], sc.cfg
        if e["op"] == "set" and (stepwise or i == len(h) - 1):
            d = _diff(S.observe(sc), fresh_obs(sc.cfg))
            if d:
                mut, fr = S.observe(sc), fresh_obs(sc.cfg)
                k = d[0]
                ex = f"{k}: after history {str(mut.get(k))[:160]} ... fresh {str(fr.get(k))[:160]}"
                prev = [x for x in h[1:i] if x["op"] == "observe"]
                return [{"sig": f"{_nm(e)}:stale.{k}", "detail": f"history {json.dumps(h[:i + 1])[:400]} | {ex}"} for k in d], sc.cfg
    if h[-1]["op"] == "observe":
        d = _diff(S.observe(sc), fresh_obs(sc.cfg))
        if d:
            return [{"sig": f"observe.{h[-1]['k']}:changes-later-results.{k}", "detail": json.dumps(h)[:400]} for k in d], sc.cfg
    return [], sc.cfg


def replay_any(rec, ctx):
    if rec.get("part") == "notify":
        from . import c01_notify
        return c01_notify.replay(rec, {"callbacks": rec["callbacks"]})
    if rec.get("part") == "notifylist":
        from . import c01_notify
        return c01_notify.replay_list(rec, None)
    return replay(rec, ctx)


def replay(rec, ctx):
    h = rec["h"]
    viol, cfg = _run(h, False)
    if viol and len(h) > 2:
        v2, _ = _run(h, True)
        if v2:
            viol = v2
    exp = {k: v for k, v in rec["cfg"].items()}
    if not viol and any(cfg[k] != exp[k] for k in exp):
        raise core.MachineryError(f"adapter configuration bookkeeping differs from the spec: {cfg} vs {exp}")
    return viol


# clamp_to_zero is read-only after construction (cdef readonly): it is configuration, not a supported mutator
REPOINT = S.REPOINT      # single-valued: re-assign the plasma already referenced
ALL = sorted([p for p in S.PARAMS if p != "A_clampZero"] + REPOINT)
CFG = """SPECIFICATION Spec
CONSTANTS
  MaxHist = {maxhist}
  Inits = {inits}
  MutParams = {params}
  ObsKinds = {{"plasma_ray", "beam_ray", "laser_ray", "beam_density"}}
INVARIANT NoStale
INVARIANT EagerFilled
PROPERTY ObserveIsPure
VIEW View
ACTION_CONSTRAINT Emit
"""


def tla_set(xs):
    return "{" + ", ".join(f'"{x}"' for x in xs) + "}"


def sensitivity_audit():
    base = fresh_obs(dict(S.DEFAULT))
    bad = []
    for p in S.PARAMS:
        cfg = dict(S.DEFAULT)
        ref = base
        if p == "N_xf":
            cfg.update(P_parent=2, B_parent=2)
            ref = fresh_obs(dict(cfg))
        if p in ("P_parent", "B_parent"):
            cfg.update(N_xf=2)
            ref = fresh_obs(dict(cfg))
        cfg[p] = 2
        if not _diff(fresh_obs(cfg), ref):
            bad.append(p)
    return bad


SPEC_MUTANTS = [
    ("plasma-change-does-not-clear-att", 'ops |-> {"lconfmat"}, clear |-> {"pm", "bm", "att"}]', 'ops |-> {"lconfmat"}, clear |-> {"pm", "bm"}]'),
    ("plasma-change-does-not-clear-pm", 'ops |-> {"lconfmat"}, clear |-> {"pm", "bm", "att"}]', 'ops |-> {"lconfmat"}, clear |-> {"bm", "att"}]'),
    ("plasma-change-does-not-reconfigure-laser", 'ops |-> {"lconfmat"}, clear |-> {"pm", "bm", "att"}]', 'ops |-> {}, clear |-> {"pm", "bm", "att"}]'),
    ("composition-does-not-cascade", '[cascade |-> {"plasma"}, ops |-> {}, clear |-> {}]', '[cascade |-> {}, ops |-> {}, clear |-> {}]'),
    ("plasma-models-do-not-reconfigure", '[cascade |-> {}, ops |-> {"pconf"}, clear |-> {}]', '[cascade |-> {}, ops |-> {}, clear |-> {}]'),
    ("beam-change-does-not-clear-att", '[cascade |-> {}, ops |-> {}, clear |-> {"bm", "att"}]', '[cascade |-> {}, ops |-> {}, clear |-> {"bm"}]'),
    ("beam-change-does-not-clear-bm", '[cascade |-> {}, ops |-> {}, clear |-> {"bm", "att"}]', '[cascade |-> {}, ops |-> {}, clear |-> {"att"}]'),
    ("beam-models-do-not-reconfigure", '[cascade |-> {}, ops |-> {"bconf"}, clear |-> {}]', '[cascade |-> {}, ops |-> {}, clear |-> {}]'),
    ("attenuator-does-not-cascade", '[cascade |-> {"beam"}, ops |-> {}, clear |-> {}]', '[cascade |-> {}, ops |-> {}, clear |-> {}]'),
    ("profile-does-not-reconfigure", '[cascade |-> {}, ops |-> {"lconfgeo"}, clear |-> {}]', '[cascade |-> {}, ops |-> {}, clear |-> {}]'),
    ("pconf-does-not-clear-pm", '[rebuild |-> {"pmat"}, clear |-> {"pm"}]', '[rebuild |-> {"pmat"}, clear |-> {}]'),
    ("bconf-does-not-clear-bm", '[rebuild |-> {"bgeom"}, clear |-> {"bm"}]', '[rebuild |-> {"bgeom"}, clear |-> {}]'),
    ("lconfgeo-does-not-rebuild-lmat", '[rebuild |-> {"lseg", "lmat"}, clear |-> {}]', '[rebuild |-> {"lseg"}, clear |-> {}]'),
    ("node-transform-skips-beam", '\\cup (IF c["B_parent"] = 2 THEN {"beam"} ELSE {})', '\\cup {}'),
    ("beam-transform-fires-nothing", '"B_sigma", "B_att", "B_xf", "B_parent"} -> {"beam"}', '"B_sigma", "B_att", "B_parent"} -> {"beam"}'),
    ("bfield-fires-nothing", 'p \\in {"P_bfield", "P_edist", "P_xf", "P_parent"} -> {"plasma"}', 'p \\in {"P_edist", "P_xf", "P_parent"} -> {"plasma"}'),
    ("adata-not-reconfigured", 'p \\in {"P_adata", "P_geom", "P_geomT", "P_integ"} -> {"pconf"}', 'p \\in {"P_geom", "P_geomT", "P_integ"} -> {"pconf"}'),
    ("cxline-no-change", '[] p = "M_cxline" -> {"bmchange"}', '[] p = "M_cxline" -> {}'),
    ("observe-fills-from-stale-projection", '/\\ ~filled[c] THEN Proj(c, cfg) ELSE at[c]]', '/\\ ~filled[c] THEN Proj(c, AllOnes) ELSE at[c]]'),
]


def spec_mutation_audit(v):
    from . import specmut
    cfg = CFG.format(maxhist=3, inits='{"observed"}', params=tla_set(ALL)).replace("ACTION_CONSTRAINT Emit\n", "")
    res = specmut.audit("Scene", cfg, SPEC_MUTANTS, procs=8)
    v.notes["spec_mutants"] = res
    v.notes["spec_mutants_killed"] = f"{sum(r.startswith('killed') for r in res.values())}/{len(res)}"


def run(v):
    apa = None
    if v.tier == "thorough":
        spec_mutation_audit(v)
        # unbounded: NoStale /\ EagerFilled inductive over every public call (Apalache), in the background while the replays run
        from concurrent.futures import ThreadPoolExecutor
        from . import apalache
        pool = ThreadPoolExecutor(1)
        apa = pool.submit(apalache.inductive, v, "C01-scene", "Scene", "MC_Scene",
                          ("beam-change-does-not-clear-att", '[cascade |-> {}, ops |-> {}, clear |-> {"bm", "att"}]', '[cascade |-> {}, ops |-> {}, clear |-> {"bm"}]'))
    bad = sensitivity_audit()
    if bad:
        raise core.MachineryError(f"sensitivity audit: changing {bad} is invisible to every observation; staleness of it could not be detected")
    depth = 2
    res = core.run_tlc("Scene", CFG.format(maxhist=depth, inits='{"fresh", "observed"}', params=tla_set(ALL)), workers=1, seed=v.seed, timeout=3000)
    core.tlc_must_pass(res, "Scene depth 2")
    v.add_tlc(res, "Scene/depth2")
    edges = [r for r in res.records if "h" in r]
    if v.tier == "thorough":
        res3 = core.run_tlc("Scene", CFG.format(maxhist=3, inits='{"observed"}', params=tla_set(ALL)), workers=1, seed=v.seed, timeout=6000, tag="Scene3")
        core.tlc_must_pass(res3, "Scene depth 3")
        v.add_tlc(res3, "Scene/depth3")
        deep = [r for r in res3.records if "h" in r and len(r["h"]) == 4]
        rng = random.Random(v.seed)
        edges += rng.sample(deep, min(len(deep), 60000))
    # set ; observe everything ; set - exhaustive for re-binding first changes (Scene_SOS.tla)
    sos_cfg = CFG.format(maxhist=3, inits='{"fresh"}', params=tla_set(ALL)).replace("SPECIFICATION Spec", "SPECIFICATION SOSSpec") \
        .replace("ACTION_CONSTRAINT Emit", "ACTION_CONSTRAINT EmitSOS").replace("PROPERTY ObserveIsPure\n", "").replace("VIEW View\n", "")
    res_sos = core.run_tlc("Scene_SOS", sos_cfg, workers=1, seed=v.seed, timeout=3000, tag="Scene-SOS")
    core.tlc_must_pass(res_sos, "Scene_SOS")
    v.add_tlc(res_sos, "Scene_SOS/set-observe-set")
    sos = [r for r in res_sos.records if "h" in r]
    if len(sos) < 1000:
        raise core.MachineryError(f"vacuity: only {len(sos)} set-observe-set histories")
    if v.tier == "quick":
        sos = random.Random(v.seed).sample(sos, min(len(sos), 2500))
    v.notes["set_observe_set_histories"] = len(sos)
    edges += sos
    ops = {}
    for r in edges:
        e = r["h"][-1]
        ops[e.get("p") or e.get("k")] = ops.get(e.get("p") or e.get("k"), 0) + 1
    missing = [p for p in ALL if p not in ops]
    if missing:
        raise core.MachineryError(f"vacuity: TLC never set {missing}")
    # group by final configuration so that workers reuse their fresh-scene observations
    edges.sort(key=lambda r: json.dumps(r["cfg"], sort_keys=True))
    out = core.fan_out("mbt.c01", "replay", edges, None, chunk=40)
    failed = {json.dumps(r["h"]) for r, vs in zip(edges, out) if vs}
    for r, vs in zip(edges, out):
        for x in vs:
            v.violation(x["sig"], x["detail"], r)
    v.add_cases(len(edges), keys=[json.dumps(r["h"]) for r in edges])
    v.sample({"history": edges[len(edges) // 3]["h"], "final_cfg_differs_from_default_in": {k: x for k, x in edges[len(edges) // 3]["cfg"].items() if x != 1}})
    from . import c01_trace, c01_notify
    c01_trace.run(v)
    c01_notify.run_part(v)
    if apa is not None:
        v.notes["inductive_invariant_any_history_length"] = apa.result()
    v.notes["edges_per_last_action"] = ops
    v.notes["histories_with_violation"] = len(failed)
    v.assumptions += ["mock atomic data with constant pairwise-distinct rates; two concrete values per parameter (mbt/scene.py); sensitivity audit passed for every parameter",
                      "one plasma, one beam, one laser, model kinds: ExcitationLine, RecombinationLine, ThermalCXLine, Bremsstrahlung, TotalRadiatedPower, BeamCXLine, BeamEmissionLine, SingleRayAttenuator, SeldenMatobaThomsonSpectrum",
                      "in-place edits of objects handed out by reference are not supported changes and are not generated"]
    return v.finish(rule="one case = one TLC-explored edge of Scene.tla (history of mutator calls / observations) replayed on a real scene and compared, observation by observation, "
                         "with a scene built from scratch in the final configuration; distinct = distinct histories")


def selftest():
    """a valid edge is accepted; the same history with a corrupted final configuration is rejected; and an observation of a
    deliberately stale scene (fresh-scene oracle for another configuration) is reported"""
    rec = {"h": [{"op": "init", "observed": True}, {"op": "set", "p": "B_energy", "v": 2}], "cfg": dict(S.DEFAULT, B_energy=2)}
    good = replay(rec, None)
    try:
        bad = replay(dict(rec, cfg=dict(S.DEFAULT, B_power=2)), None)
    except core.MachineryError:
        bad = ["configuration bookkeeping mismatch"]
    # staleness oracle: compare a scene in the default configuration with the fresh observations of another one
    stale = _diff(S.observe(S.build(S.DEFAULT)), fresh_obs(dict(S.DEFAULT, P_comp=2)))
    from . import c01_notify
    ok = not good and bool(bad) and bool(stale) and c01_notify.selftest()
    print("C01 selftest:", "ok" if ok else "FAILED", good[:1], str(bad)[:80], stale[:3])
    return 0 if ok else 2
