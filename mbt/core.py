"""Shared machinery: repo build, TLC runner, replay fan-out, findings, evidence.

Exit codes of a check: 0 held (KNOWN-FINDING lines allowed), 1 VIOLATION, 2 machinery failure.
"""
import fcntl
import hashlib
import json
import os
import re
import shutil
import subprocess
import sys
import time
import traceback
from pathlib import Path

VERIF = Path(__file__).resolve().parent.parent
REPO = Path(os.environ.get("VERIF_REPO", "/repo"))
OUT = VERIF / "out"
SPEC = VERIF / "spec"
EVID = VERIF / "evidence"
TLA_CP = "/opt/veriftools/tla/tla2tools.jar:/opt/veriftools/tla/CommunityModules-deps.jar"
PY = "/venv/bin/python"


class MachineryError(Exception):
    pass


# --------------------------------------------------------------------------- build

def build_repo():
    """Incremental in-place build of /repo's working tree (flock'ed)."""
    OUT.mkdir(exist_ok=True)
    with open(OUT / ".build.lock", "w") as lk:
        fcntl.flock(lk, fcntl.LOCK_EX)
        t0 = time.time()
        p = subprocess.run([PY, "setup.py", "build_ext", "-j16", "--inplace"], cwd=REPO,
                           stdout=subprocess.PIPE, stderr=subprocess.STDOUT, text=True)
        if p.returncode != 0:
            sys.stdout.write(p.stdout[-4000:])
            raise MachineryError("build of /repo failed")
        return time.time() - t0


# --------------------------------------------------------------------------- TLC

class TLCResult:
    def __init__(self):
        self.stdout = ""
        self.generated = 0
        self.distinct = 0
        self.records = []       # decoded PrintT(ToJson(..)) payloads
        self.ok = False
        self.error = None       # text of invariant violation / error
        self.coverage = {}      # action name -> count (when -coverage given)
        self.wall = 0.0


_STATS = re.compile(r"(\d+) states generated, (\d+) distinct states found")
_SIMSTATS = re.compile(r"The number of states generated: (\d+)")
_COV = re.compile(r"^<(\w+) line \d+, col \d+ to line \d+, col \d+ of module (\w+)>: (\d+):(\d+)")


def run_tlc(module, cfg, *, workers=1, seed=0, timeout=1800, coverage=False, simulate=None,
            depth=None, env=None, tag=None, deadlock=False, extra=()):
    """Run TLC on spec/<module>.tla with config text or path `cfg`.

    Records emitted by the spec with PrintT(ToJson(x)) are decoded into result.records.
    """
    tag = tag or module
    meta = OUT / "tlc" / f"{tag}-{os.getpid()}"
    if meta.exists():
        shutil.rmtree(meta)
    meta.mkdir(parents=True)
    cfgpath = Path(cfg)
    if "\n" in str(cfg) or not cfgpath.exists():
        cfgpath = meta / f"{module}.cfg"
        cfgpath.write_text(cfg)
    cmd = ["java", "-XX:+UseParallelGC", "-Xmx12g", "-cp", TLA_CP, "tlc2.TLC",
           "-workers", str(workers), "-metadir", str(meta / "states"), "-noGenerateSpecTE",
           "-seed", str(seed), "-config", str(cfgpath)]
    if not deadlock:
        cmd.append("-deadlock")
    if coverage:
        cmd += ["-coverage", "1"]
    if simulate:
        cmd += ["-simulate", simulate]
        if depth:
            cmd += ["-depth", str(depth)]
    cmd += list(extra)
    cmd.append(str(SPEC / f"{module}.tla"))
    e = dict(os.environ)
    e.update(env or {})
    t0 = time.time()
    res = TLCResult()
    try:
        p = subprocess.run(cmd, cwd=SPEC, stdout=subprocess.PIPE, stderr=subprocess.STDOUT,
                           text=True, env=e, timeout=timeout)
    except subprocess.TimeoutExpired as ex:
        res.stdout = (ex.stdout or b"").decode() if isinstance(ex.stdout, bytes) else (ex.stdout or "")
        res.error = "timeout"
        res.wall = time.time() - t0
        shutil.rmtree(meta, ignore_errors=True)
        return res
    res.wall = time.time() - t0
    res.stdout = p.stdout
    errlines = []
    in_err = False
    for line in p.stdout.splitlines():
        if line.startswith('"') and line.endswith('"'):
            try:
                # canonical key order: TLC's ToJson emits record fields in no particular order
                res.records.append(json.loads(json.dumps(json.loads(json.loads(line)), sort_keys=True)))
                continue
            except Exception:
                pass
        m = _STATS.search(line)
        if m:
            res.generated, res.distinct = int(m.group(1)), int(m.group(2))
        m = _SIMSTATS.search(line)
        if m:
            res.generated = int(m.group(1))
        m = _COV.match(line)
        if m:
            res.coverage[m.group(1)] = res.coverage.get(m.group(1), 0) + int(m.group(4))
        if line.startswith("Error:") or "is violated" in line or "Exception" in line:
            in_err = True
        if in_err and len(errlines) < 60:
            errlines.append(line)
    res.ok = (p.returncode == 0) and not errlines
    if not res.ok:
        res.error = "\n".join(errlines) or f"tlc exit {p.returncode}\n" + p.stdout[-2000:]
    shutil.rmtree(meta, ignore_errors=True)
    return res


def tlc_must_pass(res, what):
    if not res.ok:
        raise MachineryError(f"TLC did not pass on {what}:\n{res.error}")


# --------------------------------------------------------------------------- fan-out

def _worker(args):
    modname, fn, chunk, ctx = args
    import importlib
    mod = importlib.import_module(modname)
    f = getattr(mod, fn)
    out = []
    for rec in chunk:
        try:
            out.append(f(rec, ctx))
        except MachineryError:
            out.append({"error": traceback.format_exc(), "rec": rec})
        except Exception as ex:
            tb = traceback.format_exc()
            if fn.startswith("replay"):
                # a replay that cannot be carried out on this tree (the library raised, or handed back something the
                # adapter cannot read) is a deviation from the specified behaviour, reported like any other one; on the
                # unchanged tree no replay raises, so this cannot fire there without being looked at
                where = "library" if ("/repo/" in tb.split("Traceback")[-1].split("File")[-1] or "cherab" in tb.splitlines()[-3]) else "adapter"
                out.append([{"sig": f"replay-raised-{type(ex).__name__}@{where}", "detail": tb[-900:]}])
            else:
                out.append({"error": tb, "rec": rec})
    return out


def fan_out(modname, fn, records, ctx=None, procs=16, chunk=None):
    """Run mod.fn(record, ctx) -> result for every record in worker processes."""
    import multiprocessing as mp
    records = list(records)
    if not records:
        return []
    procs = max(1, min(procs, len(records)))
    if chunk is None:
        chunk = max(1, min(200, len(records) // (procs * 4) or 1))
    chunks = [records[i:i + chunk] for i in range(0, len(records), chunk)]
    if procs == 1:
        res = [_worker((modname, fn, c, ctx)) for c in chunks]
    else:
        with mp.get_context("fork").Pool(procs) as pool:
            res = pool.map(_worker, [(modname, fn, c, ctx) for c in chunks])
    flat = [r for c in res for r in c]
    errs = [r for r in flat if isinstance(r, dict) and "error" in r and "rec" in r]
    if errs:
        raise MachineryError("adapter crashed on a record:\n" + errs[0]["error"] +
                             "\nrecord: " + json.dumps(errs[0]["rec"])[:1500])
    return flat


# --------------------------------------------------------------------------- findings / verdict

def load_findings():
    p = VERIF / "known_findings.json"
    if not p.exists():
        return []
    return json.loads(p.read_text())["findings"]


class Verdict:
    """Collects violations (signature + detail), matches known findings, writes evidence."""

    def __init__(self, pid, tier, seed):
        self.pid, self.tier, self.seed = pid, tier, seed
        self.t0 = time.time()
        self.violations = []      # dicts: sig, detail, replay
        self.coverage = {"states": 0, "transitions": 0, "traces_validated_against_impl": 0,
                         "samples": [], "evaluations": 0, "distinct_nontrivial": 0}
        self.assumptions = []
        self._distinct = set()
        self.notes = {}
        for f in (OUT / "replay").glob(f"{pid}_*.json") if (OUT / "replay").exists() else []:
            f.unlink()

    # --- measured counts
    def add_tlc(self, res, name=None):
        self.coverage["states"] += res.distinct or res.generated
        self.coverage["transitions"] += res.generated
        if name:
            self.notes.setdefault("tlc_runs", []).append(
                {"spec": name, "generated": res.generated, "distinct": res.distinct,
                 "wall_s": round(res.wall, 2), "emitted": len(res.records),
                 **({"coverage": res.coverage} if res.coverage else {})})

    def add_cases(self, n_eval, keys=(), validated=None):
        self.coverage["evaluations"] += n_eval
        self.coverage["traces_validated_against_impl"] += n_eval if validated is None else validated
        for k in keys:
            self._distinct.add(k if isinstance(k, str) else json.dumps(k, sort_keys=True, default=str))

    def sample(self, s):
        if len(self.coverage["samples"]) < 6:
            self.coverage["samples"].append(s)

    def violation(self, sig, detail, rec=None):
        self.violations.append({"sig": sig, "detail": detail, "rec": rec})

    # --- finish
    def finish(self, rule, explanation=""):
        known = [f for f in load_findings() if f["property"] == self.pid and f["status"] == "finding"]
        by_sig = {f["signature"]: f for f in known}
        new, seen_known = [], {}
        for v in self.violations:
            if v["sig"] in by_sig:
                seen_known.setdefault(v["sig"], v)
            else:
                new.append(v)
        for sig, v in seen_known.items():
            print(f"KNOWN-FINDING: property={self.pid} {by_sig[sig]['description']} [{sig}]")
        rdir = OUT / "replay"
        rdir.mkdir(parents=True, exist_ok=True)
        printed = set()
        for v in new:
            if v["sig"] in printed:
                continue
            printed.add(v["sig"])
            h = hashlib.sha1(v["sig"].encode()).hexdigest()[:10]
            path = rdir / f"{self.pid}_{h}.json"
            path.write_text(json.dumps({"property": self.pid, "sig": v["sig"], "detail": v["detail"],
                                        "rec": v["rec"]}, indent=1, default=str))
            print(f"VIOLATION property={self.pid} replay={path}")
            print(f"  signature: {v['sig']}")
            print(f"  detail: {str(v['detail'])[:600]}")
        cov = self.coverage
        cov["distinct_nontrivial"] = len(self._distinct)
        cov["rule"] = rule
        cov["exhaustive"] = False
        if explanation:
            cov["explanation"] = explanation
        cov.update(self.notes)
        cov["known_findings_seen"] = sorted(seen_known)
        if not cov["samples"]:
            cov["samples"] = ["(no sample recorded)"]
        ev = {"property_id": self.pid, "tier": self.tier, "seed": self.seed, "level": "model_checking",
              "coverage": cov, "assumptions": self.assumptions,
              "wall_s": round(time.time() - self.t0, 2), "violations": len(printed)}
        EVID.mkdir(exist_ok=True)
        (EVID / f"{self.pid}.json").write_text(json.dumps(ev, indent=1, default=str))
        print(f"[{self.pid}] tier={self.tier} states={cov['states']} transitions={cov['transitions']} "
              f"impl_cases={cov['traces_validated_against_impl']} distinct={cov['distinct_nontrivial']} "
              f"new_violations={len(printed)} known={len(seen_known)} wall={ev['wall_s']}s")
        return 1 if printed else 0


def close(a, b, rtol=1e-12, atol=0.0):
    import math
    if isinstance(a, (list, tuple)) or isinstance(b, (list, tuple)):
        a, b = list(a), list(b)
        return len(a) == len(b) and all(close(x, y, rtol, atol) for x, y in zip(a, b))
    if a is None or b is None:
        return a is b
    if isinstance(a, float) and isinstance(b, float) and (math.isnan(a) or math.isnan(b)):
        return math.isnan(a) and math.isnan(b)
    return abs(a - b) <= atol + rtol * max(abs(a), abs(b))
