"""C06 - rate repository.  Spec: spec/Repository.tla, Trace_Repository.tla.

(R) every edge TLC explores is replayed through the real add_*/update_*/get_* functions in a
    fresh repository root; afterwards *all* keys of the universe are read back and compared bit
    for bit with the spec state, and the directory listings (root, fake $HOME) with Files(store).
(T) long random call sequences are executed on the real functions, the read-back projected to
    value ids is recorded after every call and validated by TLC against Trace_Repository.tla.
"""
import hashlib
import json
import os
import random
import shutil
import struct
import tempfile

from . import core

_HOME = core.OUT / "home"
os.environ["HOME"] = str(_HOME)
os.environ["MPLCONFIGDIR"] = str(core.OUT / "mpl")          # before cherab.openadas computes DEFAULT_REPOSITORY_PATH

import numpy as np                        # noqa: E402

SPECIES = {"h": "hydrogen", "d": "deuterium", "c": "carbon", "he": "helium", "t": "tritium"}
ADF11 = {"ionisation", "recombination", "line_power", "continuum_power", "cx_power"}
TRANS = {"t1": [(2, 1), ("2", "1")], "t2": [("N=3", "n=2"), ("n=3", "N=2")], "t3": [("3p 2P", "2s 2S"), ("3P 2p", "2S 2s")]}
AWKWARD = [5e-324, 1e300, -0.0, 0.1, 1.0 / 3.0, 2.2250738585072014e-308, 1e-300, 123456789.123456789]


def _el(sym):
    from cherab.core.atomic import elements
    return getattr(elements, SPECIES[sym])


def _rng(key, v):
    h = hashlib.sha256(json.dumps([key, v]).encode()).digest()
    return random.Random(int.from_bytes(h[:8], "big"))


def _arr(r, shape, positive_sorted=False):
    n = int(np.prod(shape))
    if positive_sorted:
        xs = sorted(r.uniform(0.5, 2.0) * 10.0 ** r.randint(-3, 20) for _ in range(n))
        return np.array(xs, np.float64).reshape(shape)
    xs = [r.choice(AWKWARD) if r.random() < 0.3 else r.uniform(-1, 1) * 10.0 ** r.randint(-30, 30) for _ in range(n)]
    return np.array(xs, np.float64).reshape(shape)


def value(key, v):
    """Concrete tables for value id v of key (unique per key and id; shapes differ between ids)."""
    key = list(key)
    f = key[0]
    r = _rng(key, v)
    n, m, k = (2, 3, 2) if v == 1 else ((3, 1, 4) if v == 2 else (1, 2, 1))
    if f in ADF11 or f == "thermal_cx" or f in ("pec_excitation", "pec_recombination"):
        return {"ne": _arr(r, (n,), True), "te": _arr(r, (m,), True), "rate": _arr(r, (n, m))}
    if f == "pec_thermal_cx":
        return {"ne": _arr(r, (n,), True), "te": _arr(r, (m,), True), "td": _arr(r, (k,), True),
                "rate": _arr(r, (n, m, k))}
    if f == "wavelength":
        return float(r.uniform(100, 900)) + (1.0 / 3.0 if v == 2 else 0.0)
    if f == "beam_cx":
        d = {"qref": float(r.uniform(1e-15, 1e-13))}
        for i, (x, q) in enumerate([("eb", "qeb"), ("ti", "qti"), ("ni", "qni"), ("z", "qz"), ("b", "qb")]):
            ln = n + i % 2
            d[x] = _arr(r, (ln,), True)
            d[q] = _arr(r, (ln,))
        return d
    # beam stopping / population / emission
    return {"e": _arr(r, (n,), True), "n": _arr(r, (m,), True), "t": _arr(r, (k,), True),
            "sen": _arr(r, (n, m)), "st": _arr(r, (k,)), "eref": float(r.uniform(1, 2)),
            "nref": float(r.uniform(1, 2) * 1e19), "tref": float(r.uniform(1, 2)), "sref": float(r.uniform(1, 2) * 1e-14)}


INST = 9            # value id of "the tables of the synthetic ADF file" (Repository.tla: InstVal)
FRONTS = ["adf11scd", "adf11acd", "adf11plt", "adf11prb", "adf11prc", "adf11ccd", "adf21", "adf22bmp", "adf22bme"]
_ADF2X = {"ne": 2, "nn": 3, "ntt": 2}
_ADF11 = {"nd": 2, "nt": 3}


def inst_value(key):
    """What get_* must return for a key written by an install_* front-end from the synthetic file (C08's writers)."""
    from . import c08
    f = key[0]
    if f in ADF11 or f == "thermal_cx":
        q = key[-1]
        b = q + 1 if f in ("ionisation", "line_power") else q
        nd, nt = _ADF11["nd"], _ADF11["nt"]
        return {"ne": np.array([10 ** c08.dens11(i) * 1e6 for i in range(1, nd + 1)]), "te": np.array([10 ** c08.temp11(j) for j in range(1, nt + 1)]),
                "rate": np.array([[10 ** c08.v11(b, it, idn) * 1e-6 for it in range(1, nt + 1)] for idn in range(1, nd + 1)])}
    ne, nn, ntt = _ADF2X["ne"], _ADF2X["nn"], _ADF2X["ntt"]
    conv = 1.0 if f == "beam_population" else 1e-6
    return {"e": np.array([1.0e3 * (i + 1) for i in range(ne)]), "n": np.array([1.0e12 * (j + 2) * 1e6 for j in range(nn)]), "t": np.array([10.0 * (k + 1) for k in range(ntt)]),
            "sen": np.array([[float("%9.3E" % c08.v2(i + 1, j + 1)) * conv for j in range(nn)] for i in range(ne)]),
            "st": np.array([float("%9.3E" % c08.v2(50 + k, 0)) * conv for k in range(ntt)]),
            "eref": 4.0e4, "nref": 6.0e13 * 1e6, "tref": 2.0e3, "sref": 5.432e-8 * conv}


def api_install(root, e):
    """One install_* call on a synthetic ADF file holding exactly the tables of e['keys']."""
    from . import c08
    from cherab.openadas import install as I
    fr, s, d = e["front"], e["s"], e["d"]
    adas = os.path.join(root, "_adas_files")
    os.makedirs(adas, exist_ok=True)
    path = os.path.join(adas, "file.dat")
    el = _el(s)
    try:
        if fr.startswith("adf11"):
            qs = sorted(k[-1] for k in e["keys"])
            off = 1 if fr in ("adf11scd", "adf11plt") else 0
            doc = dict(_ADF11, z=el.atomic_number, zmin=qs[0] + off, zmax=qs[-1] + off, match=True)
            c08.write_adf11(doc, path, el.name)
            kw = dict(repository_path=root, adas_path=adas)
            if fr == "adf11ccd":
                I.install_adf11ccd(_el(d), 0, el, "file.dat", **kw)
            else:
                getattr(I, "install_" + fr)(el, "file.dat", **kw)
        else:
            c08.write_adf2x(dict(_ADF2X, file=fr), path)
            kw = dict(repository_path=root, adas_path=adas)
            if fr == "adf21":
                I.install_adf21(_el(d), el, 1, "file.dat", **kw)
            elif fr == "adf22bmp":
                I.install_adf22bmp(_el(d), 1, el, 1, "file.dat", **kw)
            else:
                I.install_adf22bme(_el(d), el, 1, _tr("t1", 1), "file.dat", **kw)
    finally:
        shutil.rmtree(adas, ignore_errors=True)


def close_tables(a, b):
    """equality of an installed table with the writer's numbers (text round trip: 1e-12, not bit for bit)"""
    if not isinstance(a, dict) or set(a) != set(b):
        return False
    for k in b:
        x, y = np.asarray(a[k], float), np.asarray(b[k], float)
        if x.shape != y.shape or not np.allclose(x, y, rtol=1e-12, atol=0):
            return False
    return True


def _bits(x):
    if isinstance(x, np.ndarray):
        return (x.shape, x.astype(np.float64).tobytes())
    return struct.pack("<d", float(x))


def same(a, b):
    """bit-for-bit equality of two values (dict of arrays/floats, or float)."""
    if isinstance(a, dict) != isinstance(b, dict):
        return False
    if isinstance(a, dict):
        if set(a) != set(b):
            return False
        return all(_bits(np.asarray(a[k]) if not np.isscalar(a[k]) else a[k]) ==
                   _bits(np.asarray(b[k]) if not np.isscalar(b[k]) else b[k]) for k in a)
    return _bits(a) == _bits(b)


def _input_form(f, val):
    """Value as handed to the write API (lists; ADF11-style writers take the table as 'rates')."""
    if not isinstance(val, dict):
        return val
    d = {k: (x.tolist() if isinstance(x, np.ndarray) else x) for k, x in val.items()}
    if f in ADF11 or f == "thermal_cx":
        d["rates"] = d.pop("rate")
    return d


def _tr(t, sp):
    return TRANS[t][sp - 1]


# ----------------------------------------------------------------------------- real API calls

def corrupt_fields(f, val):
    """names of the fields of the data handed to the write API (Repository.tla: Fields)"""
    d = _input_form(f, val)
    return sorted(d) if isinstance(d, dict) else []


_LAST_INPUT = []        # the data object handed to the most recent write (reused by 'shared' writes)


_COPIES = {}            # key -> source key of the shared write that last wrote it (Repository.tla: WriteSame)


def value_of(key, ev):
    """content for a stored id: a value id of the key itself, or CopyOf(v0) = a copy of what was written under the source key"""
    if ev > 10:
        return value(_COPIES[tuple(key)], ev - 10)
    return value(key, ev)


def api_write(root, key, val, api, sp=1, species_override=None, charge_override=None, corrupt=None, data_obj=None):
    """Write one key through the add_* (api='add') or update_* (api='update') front-end.
    corrupt = (field, 'missing' | 'none' | 'text'): the field is removed / None / a word in the data handed over."""
    from cherab.openadas import repository as R
    f = key[0]
    d = _input_form(f, val) if data_obj is None else data_obj
    _LAST_INPUT[:] = [d]
    if corrupt is not None:
        fld, how = corrupt
        if fld not in d:
            raise core.MachineryError(f"no field {fld} in the data of {f}")
        if how == "missing":
            del d[fld]
        else:
            d[fld] = None if how == "none" else "abc"
    E = (lambda s: species_override if species_override is not None else _el(s))
    # the charge as a Python int, or (spelling 2) as the numpy integer a caller looping over np.arange would pass
    Q = (lambda q: charge_override if charge_override is not None else (np.int64(q) if sp == 2 else q))
    if f in ADF11:
        name = {"ionisation": "ionisation_rate", "recombination": "recombination_rate", "line_power": "line_power_rate",
                "continuum_power": "continuum_power_rate", "cx_power": "cx_power_rate"}[f]
        _, s, q = key
        if api == "add":
            getattr(R, "add_" + name)(E(s), Q(q), d, repository_path=root)
        else:
            getattr(R, "update_" + name + "s")({E(s): {Q(q): d}}, repository_path=root)
    elif f == "thermal_cx":
        _, dn, dq, r, q = key
        if api == "add":
            R.add_thermal_cx_rate(_el(dn), dq, E(r), Q(q), d, repository_path=root)
        else:
            R.update_thermal_cx_rates({_el(dn): {dq: {E(r): {Q(q): d}}}}, repository_path=root)
    elif f in ("pec_excitation", "pec_recombination"):
        _, s, q, t = key
        cls = f[4:]
        if api == "add":
            getattr(R, f"add_pec_{cls}_rate")(E(s), Q(q), _tr(t, sp), d, repository_path=root)
        else:
            R.update_pec_rates({cls: {E(s): {Q(q): {_tr(t, sp): d}}}}, repository_path=root)
    elif f == "wavelength":
        _, s, q, t = key
        if api == "add":
            R.add_wavelength(E(s), Q(q), _tr(t, sp), d, repository_path=root)
        else:
            R.update_wavelengths({E(s): {Q(q): {_tr(t, sp): d}}}, repository_path=root)
    elif f == "pec_thermal_cx":
        _, dn, dq, r, q, t = key
        if api == "add":
            R.add_pec_thermal_cx_rate(_el(dn), dq, E(r), Q(q), _tr(t, sp), d, repository_path=root)
        else:
            R.update_pec_thermal_cx_rates({_el(dn): {dq: {E(r): {Q(q): {_tr(t, sp): d}}}}}, repository_path=root)
    elif f == "beam_cx":
        _, dn, r, q, t, m = key
        if api == "add":
            R.add_beam_cx_rate(_el(dn), m, E(r), Q(q), _tr(t, sp), d, repository_path=root)
        else:
            R.update_beam_cx_rates({_el(dn): {E(r): {Q(q): {_tr(t, sp): {m: d}}}}}, repository_path=root)
    elif f == "beam_stopping":
        _, b, s, q = key
        if api == "add":
            R.add_beam_stopping_rate(_el(b), E(s), Q(q), d, repository_path=root)
        else:
            R.update_beam_stopping_rates({_el(b): {E(s): {Q(q): d}}}, repository_path=root)
    elif f == "beam_population":
        _, b, m, s, q = key
        if api == "add":
            R.add_beam_population_rate(_el(b), m, E(s), Q(q), d, repository_path=root)
        else:
            R.update_beam_population_rates({_el(b): {m: {E(s): {Q(q): d}}}}, repository_path=root)
    elif f == "beam_emission":
        _, b, s, q, t = key
        if api == "add":
            R.add_beam_emission_rate(_el(b), E(s), Q(q), _tr(t, sp), d, repository_path=root)
        else:
            R.update_beam_emission_rates({_el(b): {E(s): {Q(q): {_tr(t, sp): d}}}}, repository_path=root)
    else:
        raise KeyError(f)


def _nest(d, path, leaf):
    for p in path[:-1]:
        d = d.setdefault(p, {})
    d[path[-1]] = leaf


def api_multi(root, f, pairs):
    """One update_* call carrying several keys of one family."""
    from cherab.openadas import repository as R
    tree = {}
    for key, v in pairs:
        d = _input_form(f, value(key, v))
        if f in ADF11:
            _nest(tree, [_el(key[1]), key[2]], d)
        elif f == "thermal_cx":
            _nest(tree, [_el(key[1]), key[2], _el(key[3]), key[4]], d)
        elif f in ("pec_excitation", "pec_recombination"):
            _nest(tree, [f[4:], _el(key[1]), key[2], _tr(key[3], 1)], d)
        elif f == "wavelength":
            _nest(tree, [_el(key[1]), key[2], _tr(key[3], 1)], d)
        elif f == "pec_thermal_cx":
            _nest(tree, [_el(key[1]), key[2], _el(key[3]), key[4], _tr(key[5], 1)], d)
        elif f == "beam_cx":
            _nest(tree, [_el(key[1]), _el(key[2]), key[3], _tr(key[4], 1), key[5]], d)
        elif f == "beam_stopping":
            _nest(tree, [_el(key[1]), _el(key[2]), key[3]], d)
        elif f == "beam_population":
            _nest(tree, [_el(key[1]), key[2], _el(key[3]), key[4]], d)
        elif f == "beam_emission":
            _nest(tree, [_el(key[1]), _el(key[2]), key[3], _tr(key[4], 1)], d)
    fn = {"ionisation": R.update_ionisation_rates, "recombination": R.update_recombination_rates,
          "line_power": R.update_line_power_rates, "continuum_power": R.update_continuum_power_rates,
          "cx_power": R.update_cx_power_rates, "thermal_cx": R.update_thermal_cx_rates,
          "pec_excitation": R.update_pec_rates, "pec_recombination": R.update_pec_rates,
          "wavelength": R.update_wavelengths, "pec_thermal_cx": R.update_pec_thermal_cx_rates,
          "beam_cx": R.update_beam_cx_rates, "beam_stopping": R.update_beam_stopping_rates,
          "beam_population": R.update_beam_population_rates, "beam_emission": R.update_beam_emission_rates}[f]
    fn(tree, repository_path=root)


def api_read(root, key, sp=1):
    """-> ('val', value) | ('missing',) | ('exc', name).  beam_cx returns the single metastable asked for."""
    from cherab.openadas import repository as R
    f = key[0]
    try:
        if f in ADF11:
            name = {"ionisation": "get_ionisation_rate", "recombination": "get_recombination_rate",
                    "line_power": "get_line_radiated_power_rate", "continuum_power": "get_continuum_radiated_power_rate",
                    "cx_power": "get_cx_radiated_power_rate"}[f]
            out = getattr(R, name)(_el(key[1]), key[2], repository_path=root)
        elif f == "thermal_cx":
            out = R.get_thermal_cx_rate(_el(key[1]), key[2], _el(key[3]), key[4], repository_path=root)
        elif f in ("pec_excitation", "pec_recombination"):
            out = getattr(R, f"get_pec_{f[4:]}_rate")(_el(key[1]), key[2], _tr(key[3], sp), repository_path=root)
        elif f == "wavelength":
            out = R.get_wavelength(_el(key[1]), key[2], _tr(key[3], sp), repository_path=root)
        elif f == "pec_thermal_cx":
            out = R.get_pec_thermal_cx_rate(_el(key[1]), key[2], _el(key[3]), key[4], _tr(key[5], sp), repository_path=root)
        elif f == "beam_cx":
            lst = R.get_beam_cx_rates(_el(key[1]), _el(key[2]), key[3], _tr(key[4], sp), repository_path=root)
            got = [r for (m, r) in lst if m == key[5]]
            if len(got) != 1:
                return ("missing",) if not got else ("exc", "duplicate-metastable")
            out = got[0]
        elif f == "beam_stopping":
            out = R.get_beam_stopping_rate(_el(key[1]), _el(key[2]), key[3], repository_path=root)
        elif f == "beam_population":
            out = R.get_beam_population_rate(_el(key[1]), key[2], _el(key[3]), key[4], repository_path=root)
        elif f == "beam_emission":
            out = R.get_beam_emission_rate(_el(key[1]), _el(key[2]), key[3], _tr(key[4], sp), repository_path=root)
        else:
            raise KeyError(f)
    except RuntimeError:
        return ("missing",)
    except Exception as e:                      # noqa: BLE001
        return ("exc", type(e).__name__)
    return ("val", out)


def api_reject(root, key, kind, api, fld=None):
    """Attempt a single-entry write with invalid data. -> True if the library raised."""
    f = key[0]
    val = value(key, 1)
    try:
        if kind in ("missing", "none", "text"):
            api_write(root, key, value(key, 2), api, corrupt=(fld, kind))
        elif kind == "charge":
            main = {"thermal_cx": 3, "pec_thermal_cx": 3, "beam_cx": 2, "beam_stopping": 2, "beam_population": 3,
                    "beam_emission": 2}.get(f, 1)
            z = _el(key[main]).atomic_number
            api_write(root, key, val, api, charge_override=z + 1)
        elif kind == "type":
            api_write(root, key, val, api, species_override="hydrogen")
        elif kind == "shape":
            bad = dict(val)
            tab = "rate" if "rate" in bad else ("sen" if "sen" in bad else "qeb")
            bad[tab] = np.concatenate([np.asarray(bad[tab]), np.asarray(bad[tab])], axis=0)
            api_write(root, key, bad, api)
        else:
            raise KeyError(kind)
    except core.MachineryError:
        raise
    except Exception:                            # noqa: BLE001
        return True
    return False


def listing(root):
    out = set()
    for dp, _, fs in os.walk(root):
        for fn in fs:
            rel = os.path.relpath(os.path.join(dp, fn), root)
            out.add(rel[:-5] if rel.endswith(".json") else rel)
    return out


def project(root, universe):
    """Read every key of the universe; -> ({key tuple: status}, problems)."""
    state = {}
    for key in universe:
        k = tuple(key)
        spell = (1, 2) if any(isinstance(x, str) and x in TRANS for x in key[1:]) else (1,)
        res = [api_read(root, key, sp) for sp in spell]
        state[k] = res
    return state


def _universe(ctx):
    return ctx["universe"]


def _fam_of(e):
    return e["f"] if e["op"] in ("multi", "rejmulti", "install") else e["k"][0]


def _compare(root, universe, e, only_family=None):
    """Compare the real repository with the spec post-state carried by history entry e."""
    viol = []
    expect = {tuple(k): v for k, v in e["post"]}
    fam = _fam_of(e)
    opname = (f"{fam}.install_{e['front']}" if e["op"] == "install" else f"{fam}.{e.get('api', 'update-multi')}") + (f"[reject-{e['kind']}" + (f"-{e['fld']}" if e.get("fld") else "") + "]" if e["op"] == "reject" else "")
    for key in universe:
        if only_family and key[0] != only_family:
            continue
        k = tuple(key)
        ev = expect.get(k, 0)
        spells = (1, 2) if any(isinstance(x, str) and x in TRANS for x in key[1:]) else (1,)
        where = "same-family" if key[0] == fam else f"in-{key[0]}"
        for sp in spells:
            r = api_read(root, key, sp)
            if r[0] == "exc":
                viol.append({"sig": f"{opname}:read-raised-{r[1]}@{where}", "detail": f"key {key}"})
            elif ev == 0 and r[0] != "missing":
                viol.append({"sig": f"{opname}:phantom-key@{where}", "detail": f"never-written key {key} is readable"})
            elif ev != 0 and r[0] == "missing":
                viol.append({"sig": f"{opname}:lost-key@{where}", "detail": f"key {key} written with value id {ev} raises RuntimeError"})
            elif ev == INST:
                if not close_tables(r[1], inst_value(key)):
                    viol.append({"sig": f"{opname}:wrong-value@{where}", "detail": f"key {key}: expected the tables of the installed file, read something else"})
            elif ev != 0 and not same(r[1], value_of(key, ev)):
                other = [v for v in (1, 2, 3) if v != ev and same(r[1], value(key, v))]
                viol.append({"sig": f"{opname}:wrong-value@{where}",
                             "detail": f"key {key}: expected value id {ev}, read " + (f"value id {other[0]}" if other else "something else")})
    files = {"/".join(str(x) for x in p) for p in e["files"]}
    got = listing(root)
    if got != files and viol:
        # how the keys are spread over files under the repository path is the implementation's layout (FileOf mirrors today's);
        # it is reported only together with a key that reads wrongly
        viol.append({"sig": f"{opname}:file-set-differs", "detail": f"extra={sorted(got - files)} missing={sorted(files - got)}"})
    stray = listing(_HOME / ".cherab") if (_HOME / ".cherab").exists() else set()
    if stray:
        viol.append({"sig": f"{opname}:wrote-under-HOME", "detail": f"{sorted(stray)[:5]}"})
        shutil.rmtree(_HOME / ".cherab", ignore_errors=True)
    return viol


def _step(root, e):
    """-> None | violation dict | {'unasserted':..}"""
    if e["op"] == "write":
        try:
            if e.get("shared"):
                # the caller passes the object it passed to the preceding write (arrays for value id 2, lists for 1)
                _COPIES[tuple(e["k"])] = tuple(e["from"])
                api_write(root, e["k"], None, e["api"], e["sp"], data_obj=_LAST_INPUT[0])
            else:
                val = value(e["k"], e["v"])
                obj = _input_form(e["k"][0], val)
                if e["v"] == 2 and isinstance(obj, dict):
                    obj = {k: (np.asfortranarray(np.array(x)) if isinstance(x, list) else x) for k, x in obj.items()}      # ndarrays, column-major
                api_write(root, e["k"], val, e["api"], e["sp"], data_obj=obj)
        except Exception as ex:          # noqa: BLE001
            return {"sig": f"{e['k'][0]}.{e['api']}:raised-{type(ex).__name__}", "detail": repr(ex)[:300]}
    elif e["op"] == "multi":
        try:
            api_multi(root, e["f"], e["w"])
        except Exception as ex:          # noqa: BLE001
            return {"sig": f"{e['f']}.update-multi:raised-{type(ex).__name__}", "detail": repr(ex)[:300]}
    elif e["op"] == "install":
        try:
            api_install(root, e)
        except Exception as ex:          # noqa: BLE001
            return {"sig": f"{e['f']}.install_{e['front']}:raised-{type(ex).__name__}", "detail": repr(ex)[:300]}
    elif e["op"] == "reject":
        if not api_reject(root, e["k"], e["kind"], e["api"], e.get("fld")):
            return {"unasserted": f"{e['k'][0]}.{e['api']}:accepted-invalid-{e['kind']}" + (f"-{e['fld']}" if e.get("fld") else "")}
    return None


def replay(rec, ctx):
    """Execute one spec history on the real repository; return list of violation dicts.

    Fast path: run the whole history and compare the final state.  On a mismatch the history is
    re-run with a comparison after every step, and the violation is attributed to the first step
    after which the real repository differs from the spec state.
    """
    from cherab.openadas.repository import utility as U
    if not str(U.DEFAULT_REPOSITORY_PATH).startswith(str(_HOME)):
        raise core.MachineryError("DEFAULT_REPOSITORY_PATH is not under the fake HOME")
    universe = ctx["universe"] if ctx else rec["universe"]
    narrow = (ctx or {}).get("narrow")
    tmpbase = "/dev/shm" if os.path.isdir("/dev/shm") else str(core.OUT)
    for stepwise in (False, True):
        root = tempfile.mkdtemp(prefix="c06-", dir=tmpbase)
        try:
            for i, e in enumerate(rec["h"]):
                r = _step(root, e)
                if r is not None:
                    return [r]
                if rec.get("probe") and i < len(rec["h"]) - 1:
                    # the caller reads everything back between the calls (results are checked at the end / stepwise)
                    for key in universe:
                        if not narrow or key[0] == _fam_of(e):
                            for sp in ((1, 2) if any(isinstance(x, str) and x in TRANS for x in key[1:]) else (1,)):
                                api_read(root, key, sp)        # every spelling of the transition
                if stepwise or i == len(rec["h"]) - 1:
                    viol = _compare(root, universe, e, _fam_of(e) if (narrow and not stepwise) else None)
                    if viol and stepwise:
                        return viol
                    if viol:
                        break
            else:
                return []
        finally:
            shutil.rmtree(root, ignore_errors=True)
    return viol


# ----------------------------------------------------------------------------- check

CFG = """SPECIFICATION Spec
CONSTANTS
  Species = {species}
  Donors = {donors}
  Charges = {{0, 1}}
  TKeys = {{"t1", "t2"}}
  Metas = {{1, 2}}
  Vals = {{1, 2}}
  Apis = {apis}
  Families = {{"ionisation", "recombination", "line_power", "continuum_power", "cx_power", "pec_excitation", "pec_recombination", "wavelength", "thermal_cx", "pec_thermal_cx", "beam_cx", "beam_stopping", "beam_population", "beam_emission"}}
  MaxHist = {maxhist}
  MaxMulti = {maxmulti}
  InstFronts = {fronts}
  Probes = {probes}
  FieldRejects = {fieldrej}
  SharedInputs = {shared}
  SameFamily = {same}
INVARIANT TypeOK
INVARIANT LastWriteWins
PROPERTY OthersUntouched
VIEW View
ACTION_CONSTRAINT Emit
"""


def _run_edges(v, name, **kw):
    kw.setdefault("probes", "{FALSE}")
    kw.setdefault("fieldrej", "FALSE")
    kw.setdefault("shared", "FALSE")
    cfg = CFG.format(**kw)
    res = core.run_tlc("Repository", cfg, workers=1, seed=v.seed, tag="C06-" + name, timeout=3000)
    core.tlc_must_pass(res, "Repository/" + name)
    v.add_tlc(res, "Repository/" + name)
    uni = [r for r in res.records if "universe" in r]
    if len(uni) != 1:
        raise core.MachineryError("universe record missing")
    edges = [r for r in res.records if "h" in r]
    # a partially applied rejected multi-update has a *set* of allowed outcomes: it cannot be forced in a
    # forward replay; those edges are model-checked here and bound to the code by trace validation (c06_trace)
    edges = [r for r in edges if all(e["op"] != "rejmulti" for e in r["h"])]
    return uni[0]["universe"], edges


ALLF = "{" + ", ".join('"%s"' % f for f in FRONTS) + "}"


def run(v):
    shutil.rmtree(_HOME, ignore_errors=True)
    runs = []
    hd = '{"h", "d"}'
    if v.tier == "quick":
        runs.append(("same-family-depth2", dict(species=hd, donors=hd, apis='{"add"}', maxhist=2, maxmulti=0, same="TRUE", fronts=ALLF, probes="{FALSE, TRUE}", fieldrej="TRUE", shared="TRUE")))
        runs.append(("cross-family-depth1", dict(species='{"h", "d", "c"}', donors=hd, apis='{"add", "update"}', maxhist=1, maxmulti=0, same="FALSE", fronts=ALLF)))
        runs.append(("pair-updates-depth1", dict(species=hd, donors=hd, apis='{"update"}', maxhist=1, maxmulti=2, same="TRUE", fronts="{}")))
    else:
        runs.append(("same-family-depth2", dict(species='{"h", "d", "c"}', donors=hd, apis='{"add", "update"}', maxhist=2, maxmulti=0, same="TRUE", fronts=ALLF, probes="{FALSE, TRUE}", fieldrej="TRUE", shared="TRUE")))
        runs.append(("cross-family-depth1", dict(species='{"h", "d", "c"}', donors=hd, apis='{"add", "update"}', maxhist=1, maxmulti=2, same="FALSE", fronts=ALLF)))
        runs.append(("cross-family-depth2", dict(species=hd, donors='{"h"}', apis='{"add"}', maxhist=2, maxmulti=0, same="FALSE", fronts=ALLF)))
    unasserted = {}
    for name, kw in runs:
        universe, edges = _run_edges(v, name, **kw)
        if kw.get("shared") == "TRUE" and not any(e.get("shared") for r in edges for e in r["h"]):
            raise core.MachineryError("vacuity: no shared-input write explored")
        if kw.get("fieldrej") == "TRUE" and len({(e["k"][0], e.get("fld")) for r in edges for e in r["h"] if e["op"] == "reject" and e.get("fld")}) < 50:
            raise core.MachineryError("vacuity: field rejections missing")
        out = core.fan_out("mbt.c06", "replay", edges, {"universe": universe, "narrow": kw["same"] == "TRUE"})
        for rec, viols in zip(edges, out):
            for x in viols:
                if "unasserted" in x:
                    unasserted[x["unasserted"]] = unasserted.get(x["unasserted"], 0) + 1
                else:
                    v.violation(x["sig"], x["detail"], dict(rec, universe=universe))
        v.add_cases(len(edges), keys=[json.dumps([r.get("probe"), r["h"]]) for r in edges])
        if edges:
            v.sample({"run": name, "history": edges[len(edges) // 2]["h"]})
    from . import c06_trace
    c06_trace.run(v)
    # the ADF15 / ADF12 install front-ends (their keys depend on the document: AdfFormat.tla enumerates the documents, C08's
    # writers render them): every block must be readable from the repository given and nothing may appear elsewhere
    from . import c08
    res = core.run_tlc("AdfFormat", c08.CFG.format(deep="FALSE").replace('{{"adf11", "adf15", "adf2x", "adf12"}}', '{{"adf15", "adf12"}}').replace('{"adf11", "adf15", "adf2x", "adf12"}', '{"adf15", "adf12"}'),
                       workers=1, seed=v.seed, tag="C06-adf", timeout=3000)
    core.tlc_must_pass(res, "AdfFormat/install-fronts")
    v.add_tlc(res, "AdfFormat/adf15+adf12")
    docs = [r for r in res.records if "doc" in r]
    has_cx = lambda r: r["doc"]["kind"] == "adf15" and any(b["cls"] == "thermalcx" for b in r["exp"].get("blocks", []))     # noqa: E731
    if not any(has_cx(r) for r in docs) or not any(r["doc"]["kind"] == "adf12" for r in docs):
        raise core.MachineryError("vacuity: no ADF15 document with a charge-exchange block / no ADF12 document")
    if v.tier == "quick" and len(docs) > 400:
        import random
        rng = random.Random(v.seed)
        docs = [r for r in docs if has_cx(r) or rng.random() < 400.0 / len(docs)]
    out = core.fan_out("mbt.c08", "replay", docs, None)
    for r, vs in zip(docs, out):
        for x in vs:
            if "install" in x["sig"] or "outside" in x["sig"]:
                v.violation("install-front:" + x["sig"], x["detail"], dict(r, part="adf-install"))
    v.add_cases(len(docs), keys=["adf" + json.dumps(r["doc"], sort_keys=True) for r in docs])
    v.notes["invalid_input_accepted_not_asserted"] = unasserted
    v.assumptions += ["ADF11-style writers are given the table under the key 'rates' (as install.py does), not 'rate' as their docstrings say",
                      "value id -> concrete float64 tables by a seeded generator incl. subnormals, 1e300, -0.0",
                      "a rejected single-entry write must leave every key unchanged; invalid input that is accepted is recorded, not asserted"]
    return v.finish(
        rule="one case = one TLC-explored edge (history of add/update/reject calls) replayed on the real repository with all keys read back; "
             "distinct = distinct histories; plus recorded random call sequences validated by TLC (Trace_Repository)")


def replay_any(rec, ctx):
    if rec.get("part") == "adf-install":
        from . import c08
        return [dict(x, sig="install-front:" + x["sig"]) for x in c08.replay(rec, ctx) if "install" in x["sig"] or "outside" in x["sig"]]
    return replay(rec, ctx)


def selftest():
    """Binding self-test: a corrupted expected state and a swapped adapter mapping must be rejected."""
    def mk(v):
        return {"h": [{"op": "write", "api": "add", "k": ["ionisation", "h", 0], "v": 1, "sp": 1,
                       "post": [[["ionisation", "h", 0], v]], "files": [["ionisation", "h"]]}],
                "universe": [["ionisation", "h", 0], ["ionisation", "h", 1]]}
    bad = replay(mk(2), None)
    good = replay(mk(1), None)
    ok = bool(bad) and not good
    print("C06 selftest:", "ok" if ok else "FAILED", bad[:1], good[:1])
    return 0 if ok else 2
