"""C13 - function wrappers and samplers.  Spec: spec/FuncWrap.tla (one TLC state per case).

(R) every case is executed with recording Python callables as the wrapped functions: the argument tuple the
    inner function received and the value returned are compared with what the spec prescribes (exact rational
    lattice arguments; named IEEE edge tokens are checked by the required predicate).
"""
import json
import math
from fractions import Fraction

from . import core

W = (1.0, 0.37, 0.011)


def code(*a):
    return 0.5 + sum(x * w for x, w in zip(a, W))


KEPT = (1.7, -2.0, 0.75)


def vcode(*a):
    """vector value of the recording function: every component depends on another argument"""
    return (1.5 + 0.1 * a[0], -2.0 + (0.01 * a[1] if len(a) > 1 else 0.0), 0.75 + (0.001 * a[2] if len(a) > 2 else 0.0))


def exact_grid(lo, hi, n):
    """n evenly spaced points from lo to hi inclusive (lo alone for n = 1), from exact rationals"""
    lo, hi = Fraction(lo), Fraction(hi)
    return [float(lo + i * (hi - lo) / (n - 1)) if n > 1 else float(lo) for i in range(n)]


class Rec:
    def __init__(self, vector=False, keep=False):
        self.calls = []
        self.vector = vector
        self.kept = None
        if keep:
            from raysect.core import Vector3D
            self.kept = Vector3D(*KEPT)       # one retained object handed out at every call (like ConstantVector2D/3D)

    def __call__(self, *a):
        from raysect.core import Vector3D
        self.calls.append(tuple(float(x) for x in a))
        if self.kept is not None:
            return self.kept
        if self.vector:
            return Vector3D(*vcode(*a))
        return code(*a)


def _cls(name):
    import cherab.core.math as M
    from cherab.core.math import transform as T
    return getattr(M, name, None) or getattr(T, name)


def _argsclose(got, want, tol=1e-14):
    return len(got) == len(want) and all(abs(g - w) <= tol * max(1.0, abs(w)) for g, w in zip(got, want))


def replay(rec, ctx):
    import numpy as np
    from raysect.core import Vector3D
    c, e, D = rec["case"], rec["exp"], float(rec["D"])
    w = c["w"]
    viol = []

    def bad(what, detail):
        viol.append({"sig": f"{c['w']}{'.' + c['mapper'] if 'mapper' in c else ''}:{what}" + ("@after-another-evaluation" if c.get("prev") == "other" else ""), "detail": f"{detail} | case {json.dumps(c)}"})

    def pt(*names):
        return [c[n] / D for n in names]

    if w == "PolygonMask2D":
        f = _cls("PolygonMask2D")([[float(a), float(b)] for a, b in e["vertices"]])
        got = f(c["X"] / 2.0, c["Y"] / 2.0)
        if e["post"] == "one" and got != 1.0 or e["post"] == "zero" and got != 0.0:
            bad("mask-differs-from-point-in-polygon", f"mask({c['X'] / 2.0}, {c['Y'] / 2.0}) = {got}, spec {e['post']}")
        return viol
    if w.startswith("sample"):
        return _samplers(c, e, D, bad) or viol
    if w == "PeriodicToken":
        p = c["p"] / D
        x = {"neg_tiny": -1e-20, "neg_zero": -0.0, "huge": 1e300, "neg_huge": -1e300, "exact_multiple": 3 * p,
             "neg_exact_multiple": -4 * p, "just_below_period": math.nextafter(p, 0.0), "generic": 12.3456789, "neg_generic": -987.654321}[c["token"]]
        for name, nargs in (("PeriodicTransform1D", 1), ("PeriodicTransform2D", 2), ("PeriodicTransform3D", 3)):
            r = Rec()
            f = _cls(name)(r, *([p] * nargs))
            f(*([x] * nargs))
            for inner in r.calls[0]:
                k = (Fraction(x) - Fraction(inner)) / Fraction(p)
                off = abs(k - round(k)) * Fraction(p)
                if not (0.0 <= inner < p):
                    bad(f"{c['token']}:inner-argument-outside-[0,period)", f"{name}: x={x!r} period={p} -> inner {inner!r}")
                elif off > Fraction(p) * Fraction(2) ** -52:
                    bad(f"{c['token']}:inner-argument-not-congruent", f"{name}: x={x!r} period={p} -> inner {inner!r}")
        return viol

    token_xy = None
    if w == "AxisToken":
        token_xy = {"origin": (0.0, 0.0), "tiny_x": (1e-200, 0.0), "tiny_neg_y": (0.0, -1e-200), "subnormal_x": (5e-324, 0.0), "tiny_neg_x": (-1e-200, 0.0)}[c["token"]]
        tok = c["token"]
        w = c["mapper"]
    vector = w.startswith("Vector")
    keep = c.get("prev") == "other"
    r = Rec(vector, keep)
    names = [n for n in ("x", "y", "z") if n in c]
    args = pt(*names)
    if token_xy is not None:
        args = [token_xy[0], token_xy[1], c["z"] / D]
    if w in ("IsoMapper2D", "IsoMapper3D"):
        g = Rec()
        f = _cls(w)(r, g)
    elif w == "Swizzle3D":
        f = _cls(w)(r, tuple(c["shape"]))
    elif w in ("Slice2D", "Slice3D"):
        f = _cls(w)(r, c["axis"], c["value"] / D)
        f2 = _cls(w)(Rec(), "xyz"[c["axis"]].upper(), c["value"] / D)
        if f2(*args) != f(*args):
            bad("string-axis-differs-from-integer-axis", "")
        r.calls.clear()
    elif w == "ClampInputBounds":
        kw = {}
        for k, (kind, (lo, hi)) in enumerate(zip(c["kinds"], e["bounds"])):
            if kind in ("lower", "both"):
                kw["xyz"[k] + "min"] = lo / D
            if kind in ("upper", "both"):
                kw["xyz"[k] + "max"] = hi / D
        try:
            f = _cls(f"ClampInput{len(c['kinds'])}D")(r, **kw)
        except Exception as ex:      # noqa: BLE001
            bad(f"valid-bounds-refused-{type(ex).__name__}", f"ClampInput{len(c['kinds'])}D(f, {kw}): {ex!r}"[:200])
            return viol
    elif w.startswith("ClampInput"):
        lo, hi = c["lo"] / D, c["hi"] / D
        lim = [(lo, hi), (lo - 1 / D, hi + 2 / D), (lo + 2 / D, hi + 20 / D)][:len(names)]
        f = _cls(w)(r, *[x for pair in lim for x in pair])
    elif w.startswith("ClampOutput"):
        f = _cls(w)(r, e["lo"] / D * 1.0 + 0.5, e["hi"] / D + 0.5)
    elif "Periodic" in w:
        f = _cls(w)(r, *[c[k] / D for k in ("p", "q", "s") if k in c])
    else:
        f = _cls(w)(r)
    if keep:
        # an earlier evaluation at another point (other toroidal angle, other period)
        try:
            f(*[(-0.4, -0.3, 0.9)[i] + 1.25 * i for i in range(len(args))])
        except Exception as ex:       # noqa: BLE001
            bad(f"raised-{type(ex).__name__}", repr(ex)[:200])
            return viol
        r.calls.clear()
    try:
        out = f(*args)
    except Exception as ex:       # noqa: BLE001
        bad(f"raised-{type(ex).__name__}", repr(ex)[:200])
        return viol
    if keep and (r.kept.x, r.kept.y, r.kept.z) != KEPT:
        bad("modifies-the-vector-the-wrapped-function-returned", f"{r.kept} vs {KEPT}")
    if len(r.calls) != 1:
        bad("inner-function-not-called-exactly-once", str(len(r.calls)))
        return viol
    got = r.calls[0]
    want = e["inner"]
    # --- the inner argument tuple
    if "phi" in want:
        cx, cy, cr = e["cs"]
        ok = len(got) == 3 and abs(got[0] - want[0] / D) <= 1e-14 and abs(got[2] - want[2] / D) <= 1e-14
        if cr > 0 and cx * cx + cy * cy > 0:
            ok = ok and -math.pi <= got[1] <= math.pi and abs(math.cos(got[1]) - cx / cr) <= 1e-14 and abs(math.sin(got[1]) - cy / cr) <= 1e-14
        if not ok:
            bad("inner-argument-differs", f"received {got}, spec (r={want[0] / D}, phi with (cos, sin)=({cx}/{cr}, {cy}/{cr}), z={want[2] / D})")
    else:
        wantf = [x / D for x in want]
        if not _argsclose(got, wantf):
            bad("inner-argument-differs", f"received {got}, spec {wantf}")
            return viol
    # --- the result
    inner_val = Rec(vector, keep)(*got)
    post = e["post"]
    if post == "id":
        exp_out = inner_val
    elif post == "g_of_f":
        if len(g.calls) != 1 or abs(g.calls[0][0] - inner_val) > 1e-15:
            bad("outer-function-argument-differs", f"g received {g.calls}, f returned {inner_val}")
        exp_out = code(inner_val)
    elif post == "clamp":
        exp_out = min(max(inner_val, e["lo"] / D + 0.5), e["hi"] / D + 0.5)
    elif post == "rotate_z_any":
        exp_out = None
        if not (all(math.isfinite(q) for q in (out.x, out.y, out.z)) and abs(out.z - inner_val.z) <= 1e-13
                and abs(math.hypot(out.x, out.y) - math.hypot(inner_val.x, inner_val.y)) <= 1e-13):
            bad("result-differs", f"on the axis the result must be a finite rotation about z of the inner vector {inner_val}: {out}")
    elif post == "rotate_z":
        cx, cy, cr = e["cs"]
        if cr == 0 and w != "VectorAxisymmetricMapper":
            exp_out = None
        else:
            co, si = (cx / cr, cy / cr) if cr else (1.0, 0.0)
            exp_out = Vector3D(inner_val.x * co - inner_val.y * si, inner_val.x * si + inner_val.y * co, inner_val.z)
    if vector:
        if exp_out is not None and not (abs(out.x - exp_out.x) <= 1e-13 and abs(out.y - exp_out.y) <= 1e-13 and abs(out.z - exp_out.z) <= 1e-13):
            bad("result-differs", f"returned {out}, spec {exp_out}")
    elif out != exp_out and not (abs(out - exp_out) <= 1e-15 * max(1.0, abs(exp_out))):
        bad("result-differs", f"returned {out!r}, spec {exp_out!r}")
    return viol


def _samplers(c, e, D, bad):
    import numpy as np
    from raysect.core import Vector3D
    from cherab.core.math import samplers as S
    w = c["w"]
    if w == "sample1d":
        r = Rec()
        lo, hi, n = c["lo"] / D, c["hi"] / D, c["n"]
        x, v = S.sample1d(r, (lo, hi, n))
        xs = [float(Fraction(a, b)) / D for a, b in e["xs"]]
        if len(x) != n or not _argsclose(list(x), xs, 1e-15):
            bad("grid-points-differ", f"{list(x)[:6]}.. vs {xs[:6]}..")
        elif float(x[0]) != lo or (n > 1 and float(x[-1]) != hi):
            bad("grid-misses-an-end-point", f"first {float(x[0])!r}, last {float(x[-1])!r} for the range ({lo!r}, {hi!r}, {n})")
        if [q[0] for q in r.calls] != list(x) or list(v) != [code(float(q)) for q in x]:
            bad("samples-not-function-at-grid-points", f"{list(v)}")
        pts = np.array([0.3, -1.2, 0.3, 5.0])
        r2 = Rec()
        vp = S.sample1d_points(r2, pts)
        if list(vp) != [code(float(q)) for q in pts]:
            bad("points-sampler-differs", "")
        return
    xr, yr, zr = (-0.5, 0.7), (1.0, 2.0), (-3.0, -1.0)
    n, m = c["n"], c["m"]
    ex, ey = exact_grid(xr[0], xr[1], n), exact_grid(yr[0], yr[1], m)

    def veq(got, want):
        return len(got) == 3 and all(abs(float(g) - w) <= 1e-15 for g, w in zip(got, want))
    if w == "sample2d":
        r = Rec()
        x, y, s = S.sample2d(r, (xr[0], xr[1], n), (yr[0], yr[1], m))
        if s.shape != (n, m) or not _argsclose(list(x), ex, 1e-15) or not _argsclose(list(y), ey, 1e-15):
            bad("grid-or-shape-differs", f"shape {s.shape}; x {list(x)} vs {ex}; y {list(y)} vs {ey}")
            return
        if (float(x[0]), float(x[-1]), float(y[0]), float(y[-1])) != (xr[0], xr[1] if n > 1 else xr[0], yr[0], yr[1] if m > 1 else yr[0]):
            bad("grid-misses-an-end-point", f"x {float(x[0])!r}..{float(x[-1])!r}, y {float(y[0])!r}..{float(y[-1])!r}")
        ex, ey = [float(q) for q in x], [float(q) for q in y]
        for i in range(n):
            for j in range(m):
                if s[i, j] != code(ex[i], ey[j]):
                    bad("index-order-or-value-differs", f"samples[{i},{j}] = {s[i, j]} vs f(x_{i}, y_{j}) = {code(ex[i], ey[j])}")
                    return
        g = S.sample2d_grid(Rec(), np.array(ex), np.array(ey))
        if g.shape != (n, m) or any(g[i, j] != code(ex[i], ey[j]) for i in range(n) for j in range(m)):
            bad("grid-sampler-differs", "sample2d_grid")
        pts = np.array([[ex[i], ey[j]] for i in range(n) for j in range(m)])
        p = S.sample2d_points(Rec(), pts)
        if list(p) != [code(float(a), float(b)) for a, b in pts]:
            bad("points-sampler-differs", "sample2d_points")
        # the same points handed over as the transpose of (xs, ys) - column-major in memory - and as a plain list of pairs
        for lay, alt in (("transposed-columns", np.array([pts[:, 0].copy(), pts[:, 1].copy()]).T), ("fortran-ordered", np.asfortranarray(pts)), ("list", pts.tolist())):
            if list(S.sample2d_points(Rec(), alt)) != list(p):
                bad("points-sampler-depends-on-memory-layout", f"sample2d_points, {lay}")
                break
        rv = Rec(True)
        vx, vy, vs = S.samplevector2d(rv, (xr[0], xr[1], n), (yr[0], yr[1], m))
        if vs.shape != (n, m, 3) or not _argsclose(list(vx), ex, 1e-15) or not _argsclose(list(vy), ey, 1e-15) \
                or any(not veq(vs[i, j], vcode(ex[i], ey[j])) for i in range(n) for j in range(m)):
            bad("vector-sampler-differs", "samplevector2d")
        vg = S.samplevector2d_grid(Rec(True), np.array(ex), np.array(ey))
        if vg.shape != (n, m, 3) or any(not veq(vg[i, j], vcode(ex[i], ey[j])) for i in range(n) for j in range(m)):
            bad("vector-grid-sampler-differs", "samplevector2d_grid")
        vp = S.samplevector2d_points(Rec(True), pts)
        if vp.shape != (len(pts), 3) or any(not veq(vp[q], vcode(float(a), float(b))) for q, (a, b) in enumerate(pts)):
            bad("vector-points-sampler-differs", "samplevector2d_points")
        return
    k = c["k"]
    ez = exact_grid(zr[0], zr[1], k)
    r = Rec()
    x, y, z, s = S.sample3d(r, (xr[0], xr[1], n), (yr[0], yr[1], m), (zr[0], zr[1], k))
    if s.shape != (n, m, k) or not _argsclose(list(x), ex, 1e-15) or not _argsclose(list(y), ey, 1e-15) or not _argsclose(list(z), ez, 1e-15):
        bad("grid-or-shape-differs", f"shape {s.shape}; {list(x)} {list(y)} {list(z)} vs {ex} {ey} {ez}")
        return
    ex, ey, ez = [float(q) for q in x], [float(q) for q in y], [float(q) for q in z]
    for i in range(n):
        for j in range(m):
            for l in range(k):
                if s[i, j, l] != code(ex[i], ey[j], ez[l]):
                    bad("index-order-or-value-differs", f"samples[{i},{j},{l}]")
                    return
    g = S.sample3d_grid(Rec(), np.array(ex), np.array(ey), np.array(ez))
    if g.shape != (n, m, k) or any(g[i, j, l] != code(ex[i], ey[j], ez[l]) for i in range(n) for j in range(m) for l in range(k)):
        bad("grid-sampler-differs", "sample3d_grid")
    pts = np.array([[ex[i], ey[j], ez[l]] for i in range(n) for j in range(m) for l in range(k)])
    p = S.sample3d_points(Rec(), pts)
    if list(p) != [code(float(a), float(b), float(cc)) for a, b, cc in pts]:
        bad("points-sampler-differs", "sample3d_points")
    for lay, alt in (("transposed-columns", np.array([pts[:, 0].copy(), pts[:, 1].copy(), pts[:, 2].copy()]).T), ("fortran-ordered", np.asfortranarray(pts)), ("list", pts.tolist())):
        if list(S.sample3d_points(Rec(), alt)) != list(p):
            bad("points-sampler-depends-on-memory-layout", f"sample3d_points, {lay}")
            break
        if lay != "list":
            va = S.samplevector3d_points(Rec(True), alt)
            if va.shape != (len(pts), 3) or any(not veq(va[q], vcode(float(a), float(b), float(cc))) for q, (a, b, cc) in enumerate(pts)):
                bad("points-sampler-depends-on-memory-layout", f"samplevector3d_points, {lay}")
                break
    rv = Rec(True)
    out = S.samplevector3d(rv, (xr[0], xr[1], n), (yr[0], yr[1], m), (zr[0], zr[1], k))
    vs = out[3]
    if vs.shape != (n, m, k, 3) or not _argsclose(list(out[0]), ex, 1e-15) or not _argsclose(list(out[1]), ey, 1e-15) or not _argsclose(list(out[2]), ez, 1e-15) \
            or any(not veq(vs[i, j, l], vcode(ex[i], ey[j], ez[l])) for i in range(n) for j in range(m) for l in range(k)):
        bad("vector-sampler-differs", "samplevector3d")
    vg = S.samplevector3d_grid(Rec(True), np.array(ex), np.array(ey), np.array(ez))
    if vg.shape != (n, m, k, 3) or any(not veq(vg[i, j, l], vcode(ex[i], ey[j], ez[l])) for i in range(n) for j in range(m) for l in range(k)):
        bad("vector-grid-sampler-differs", "samplevector3d_grid")
    vp = S.samplevector3d_points(Rec(True), pts)
    if vp.shape != (len(pts), 3) or any(not veq(vp[q], vcode(float(a), float(b), float(cc))) for q, (a, b, cc) in enumerate(pts)):
        bad("vector-points-sampler-differs", "samplevector3d_points")


CFG = """SPECIFICATION Spec
INVARIANT PeriodicInRange
INVARIANT ClampInRange
INVARIANT OrientationIrrelevant
INVARIANT SwizzleIsProjection
INVARIANT GridHitsBothEnds
INVARIANT EmitCase
"""


def run(v):
    res = core.run_tlc("FuncWrap", CFG, workers=1, seed=v.seed, timeout=1800)
    core.tlc_must_pass(res, "FuncWrap")
    v.add_tlc(res, "FuncWrap")
    cases = [r for r in res.records if "case" in r]
    kinds = {}
    for r in cases:
        kinds[r["case"]["w"]] = kinds.get(r["case"]["w"], 0) + 1
    if len(kinds) < 27:
        raise core.MachineryError(f"vacuity: only {len(kinds)} wrapper kinds enumerated")
    out = core.fan_out("mbt.c13", "replay", cases, None)
    for r, vs in zip(cases, out):
        for x in vs:
            v.violation(x["sig"], x["detail"], r)
    v.add_cases(len(cases), keys=[json.dumps(r["case"], sort_keys=True) for r in cases])
    v.sample(cases[0])
    v.sample(cases[len(cases) // 2])
    v.notes["cases_per_wrapper"] = kinds
    v.assumptions += ["arguments on a rational lattice (Pythagorean points for radii); IEEE behaviour only for the named edge tokens of the periodic transforms",
                      "polygon test points at half-integers; points on an edge are accepted either way"]
    return v.finish(rule="one case = one (wrapper, parameters, argument) row enumerated by TLC executed with recording callables; distinct = distinct rows")


def selftest():
    rec = {"case": {"w": "Swizzle2D", "x": 3, "y": 4}, "exp": {"inner": [4, 3], "post": "id"}, "D": 10}
    good = replay(rec, None)
    bad = replay(dict(rec, exp={"inner": [3, 4], "post": "id"}), None)
    ok = not good and bool(bad)
    print("C13 selftest:", "ok" if ok else "FAILED", good[:1], bad[:1])
    return 0 if ok else 2
