"""Shared by C03 / C05: real plasma + mock provider built from an Emission.tla record."""
import math

EL = {"d": "deuterium", "he": "helium", "c": "carbon"}
AMU = 1.66053906660e-27
MASS = {"d": 2.014, "he": 4.0026, "c": 12.0}
LAM = 500.0
UNIT = 1e-20          # abstract rate 1 = 1e-20 W m^3 ; abstract density 1 = 1e10 m^-3  (keeps everything well inside float range)
NU = 1e10


def nu(rec):
    """density unit of a record: 1e10 m^-3 x 10^mag"""
    return NU * 10.0 ** rec.get("mag", 0)


def element(sym):
    from cherab.core.atomic import elements as E
    return getattr(E, EL[sym])


class Calls(list):
    earlier = frozenset()


WRONG = 2.3        # a coefficient asked at other than the documented arguments answers with this multiple of its value


def _matches(args, want):
    import math as _m
    if want is None:
        return True
    if len(args) != len(want):
        return False
    for a, w in zip(args, want):
        if _m.isinf(w):
            if a != w:
                return False
        elif abs(a - w) > 1e-9 * max(abs(w), 1e-300):
            return False
    return True


def provider(rates, calls, expect=None):
    """expect(tag) -> the documented evaluation arguments of the coefficient `tag` at the point under test (or None): the
    mock answers with its number there and with WRONG x its number anywhere else, so that an argument mix-up shows in the
    emission itself (extra evaluations elsewhere are harmless)"""
    from cherab.core.atomic import AtomicData
    expect = expect or (lambda tag: None)
    from cherab.core.atomic import rates as R
    from cherab.core.atomic.gaunt import FreeFreeGauntFactor

    def name(el, q):
        sym = {"deuterium": "d", "helium": "he", "carbon": "c"}[el.name]
        return f"{sym}{q}"

    class K2:
        def __init__(self, v, tag): self.v, self.tag = v, tag
        def evaluate(self, *a):
            calls.append(("eval", self.tag, tuple(float(x) for x in a)))
            return self.v

    def mk(base, v, tag):
        class C(base):
            def __init__(self): pass
            def evaluate(self, *a):
                a = tuple(float(x) for x in a)
                calls.append(("eval", tag, a))
                return v if _matches(a, expect(tag)) else WRONG * v
        return C()

    class G(FreeFreeGauntFactor):
        def evaluate(self, z, te, wl):
            calls.append(("eval", "gaunt", (float(z), float(te), float(wl))))
            g = rates["gaunt"]
            val = float(g[int(round(z)) - 1]) if isinstance(g, list) else float(g)
            want = expect("gaunt")          # (T_e, window) of the point under test
            if want is not None and not (abs(te - want[0]) <= 1e-9 * max(abs(want[0]), 1e-300) and want[1] <= wl <= want[2]):
                val *= WRONG
            return val

    class A(AtomicData):
        def wavelength(self, ion, charge, transition):
            calls.append(("wavelength", name(ion, charge)))
            return LAM
        def impact_excitation_pec(self, ion, charge, transition):
            calls.append(("exc", name(ion, charge)))
            return mk(R.ImpactExcitationPEC, rates["exc"] * UNIT, "exc")
        def recombination_pec(self, ion, charge, transition):
            calls.append(("rec", name(ion, charge)))
            return mk(R.RecombinationPEC, rates["rec"] * UNIT, "rec")
        def thermal_cx_pec(self, de, dq, re, rq, transition):
            calls.append(("tcx", name(de, dq), name(re, rq)))
            return mk(R.ThermalCXPEC, rates["tcx"][name(de, dq)] * UNIT, "tcx:" + name(de, dq))
        def line_radiated_power_rate(self, ion, charge):
            calls.append(("plt", name(ion, charge)))
            return mk(R.LineRadiationPower, rates["plt"] * UNIT, "plt")
        def continuum_radiated_power_rate(self, ion, charge):
            calls.append(("prb", name(ion, charge)))
            return mk(R.ContinuumPower, rates["prb"] * UNIT, "prb")
        def cx_radiated_power_rate(self, ion, charge):
            calls.append(("prc", name(ion, charge)))
            return mk(R.CXRadiationPower, rates["prc"] * UNIT, "prc")
        def free_free_gaunt_factor(self):
            calls.append(("gaunt",))
            return G()
        def beam_cx_pec(self, d, r, rq, transition):
            calls.append(("bcx", name(r, rq)))
            out = []
            for m, v in enumerate(rates["bcx"], 1):
                if m == rates.get("bcx_zero", 0):
                    v = 0
                class C(R.BeamCXPEC):
                    def __init__(self, m, v):
                        super().__init__(m)
                        self.v = v
                    def evaluate(self, e, t, n, z, b):
                        a = (float(e), float(t), float(n), float(z), float(b))
                        calls.append(("eval", f"bcx{self.donor_metastable}", a))
                        return self.v if _matches(a, expect("bcx")) else WRONG * self.v
                out.append(C(m, v * UNIT))
            return out
        def beam_population_rate(self, b, m, p, q):
            calls.append(("bmp", m, name(p, q)))
            return mk(R.BeamPopulationRate, float(rates["bmp"][name(p, q)][m - 2]), "bmp:" + name(p, q))
        def beam_emission_pec(self, b, p, q, transition):
            calls.append(("bes", name(p, q)))
            return mk(R.BeamEmissionPEC, rates["bes"][name(p, q)] * UNIT, "bes:" + name(p, q))
        def beam_stopping_rate(self, b, p, q):
            return mk(R.BeamStoppingRate, 0.0, "bms")
    return A()


_REFILL = {}
ELSEWHERE = (-1.0, 0.2, 0.3)       # for the "point" prior: the plasma has other values outside a small box around the test point


def _profile(value, elsewhere, stepped):
    from cherab.core.math import Constant3D
    if not stepped:
        return Constant3D(value)
    from raysect.core.math.function.float.function3d.autowrap import PythonFunction3D
    # the record's value in a small box around the point under test (0.1, 0.2, 0.3), the other value everywhere else: a
    # quantity read at a point with one coordinate mixed up (x, y, y) comes out as the other value
    return PythonFunction3D(lambda x, y, z: value if (abs(x - 0.1) < 0.04 and abs(y - 0.2) < 0.04 and abs(z - 0.3) < 0.04) else elsewhere)


def fill(p, rec, vel=None, stepped=False):
    """give plasma p the electron distribution and composition of the record (stepped: other values where x < -0.5)"""
    from raysect.core import Vector3D
    from cherab.core import Species
    from cherab.core.distribution import Maxwellian
    from cherab.core.math import ConstantVector3D
    zero = ConstantVector3D(Vector3D(0, 0, 0))
    p.electron_distribution = Maxwellian(_profile(rec["ne"] * nu(rec), 1.0 * nu(rec), stepped), _profile(float(rec["te"]), 7.0, stepped), zero, 9.1093837015e-31)
    sp = []
    for s, d in rec["dens"].items():
        if d == -9:
            continue
        sym, q, _ = rec["species"][s]
        v = ConstantVector3D(Vector3D(*(vel or {}).get(s, (0, 0, 0))))
        sp.append(Species(element(sym), q, Maxwellian(_profile(d * nu(rec), 3.0 * nu(rec), stepped), _profile(float(rec["temp"][s]), 5.0, stepped), v, MASS[sym] * AMU)))
    p.composition = sp


def plasma(rec, vel=None):
    from raysect.core import Vector3D
    from cherab.core import Plasma
    from cherab.core.math import ConstantVector3D
    p = Plasma()
    p.b_field = ConstantVector3D(Vector3D(0, 3.0, 4.0))
    prior = rec.get("prior", "none")
    if prior == "mutated":
        # the plasma object first holds other distributions and every species; prior_phase() gives it the record's afterwards
        fill(p, dict(rec, ne=1, te=7, dens={s: 3 for s in rec["dens"]}, temp={s: 5 for s in rec["temp"]}), vel)
        _REFILL[id(p)] = lambda: fill(p, rec, vel)
    else:
        fill(p, rec, vel, stepped=(prior == "point"))
    return p


def other_rates(rates):
    """a provider with different numbers everywhere (for the 'provider' prior)"""
    def bump(x):
        if isinstance(x, dict):
            return {k: bump(v) for k, v in x.items()}
        if isinstance(x, list):
            return [bump(v) for v in x]
        return x + 1
    return bump(rates)


def other_plasma(rec):
    """a plasma with every species present at other densities / temperatures (for the 'plasma' prior)"""
    return plasma(dict(rec, ne=1, te=7, dens={s: 3 for s in rec["dens"]}, temp={s: 5 for s in rec["temp"]}))


def prior_phase(rec, rates, model, evaluate, calls, ad, pl, beam=None, evaluate_elsewhere=None):
    """Bind the model to the prior provider / plasma, evaluate once (exceptions ignored), then bind to (ad, pl)."""
    prior = rec.get("prior", "none")
    if prior == "reline":
        from cherab.core.atomic import Line
        mine = model.line
        from cherab.core.atomic import hydrogen
        model.line = Line(element("he"), 1, (4, 3)) if rec["model"] == "bcx" else Line(hydrogen, 0, (3, 2))
        try:
            evaluate()
        except Exception:          # noqa: BLE001
            pass
        model.line = mine
        del calls[:]
        return
    if prior == "integrator":
        try:
            evaluate()
        except Exception:          # noqa: BLE001
            pass
        from cherab.core.math.integrators import GaussianQuadrature
        model.integrator = GaussianQuadrature()
        calls.earlier = {tuple(x) for x in calls if x[0] not in ("eval", "wavelength")}
        del calls[:]
        return
    if prior in ("point", "mutated"):
        try:
            (evaluate_elsewhere if prior == "point" else evaluate)()
        except Exception:          # noqa: BLE001
            pass
        if prior == "mutated":
            if beam is not None:
                beam.length = beam.length * 1.5       # the beam rebuilds its geometry and re-attaches its models
                try:
                    evaluate()                        # ... and is observed again before the plasma changes
                except Exception:      # noqa: BLE001
                    pass
            _REFILL.pop(id(pl))()
        # same provider throughout: coefficients fetched during the earlier evaluation may legitimately be kept
        calls.earlier = {tuple(x) for x in calls if x[0] not in ("eval", "wavelength")}
        del calls[:]
        return
    if prior == "provider":
        model.atomic_data = provider(other_rates(rates), Calls())
        if beam is not None:
            beam.atomic_data = model.atomic_data
    elif prior == "plasma":
        op = other_plasma(rec)
        model.plasma = op
        if beam is not None:
            beam.plasma = op
    if prior != "none":
        try:
            evaluate()
        except Exception:          # noqa: BLE001
            pass
        if beam is not None:
            beam.plasma = pl
            beam.atomic_data = ad
        model.plasma = pl
        model.atomic_data = ad
        del calls[:]
