"""C02, integrator part.  Spec: spec/Quadrature.tla (order-range / table state machine of GaussianQuadrature).

(R) every edge TLC explores is replayed on a real GaussianQuadrature: refused values must raise ValueError and change
    nothing; after the history the object must integrate exactly like one constructed with the final parameters
    (same algorithm, so bit for bit), monomials up to the spec's exact degree must come out exact, and a Stark
    Lorentzian spread over bins with the mutated integrator must equal the one spread with a fresh integrator."""
import json

from . import core

RTOL = {1: 1e-5, 2: 1e-10, 0: 0.0, -1: -1e-3}
INTERVALS = [(0.0, 1.0), (-1.5, 2.0), (655.0, 657.5)]


def _poly(k, shift):
    from raysect.core.math.function.float import Arg1D
    f = Arg1D() - shift
    out = f
    if k == 0:
        return f * 0 + 1.0
    for _ in range(k - 1):
        out = out * f
    return out


def _exact(k, a, b, shift):
    return ((b - shift) ** (k + 1) - (a - shift) ** (k + 1)) / (k + 1)


def _lorentz_bins(integ):
    from raysect.optical import Spectrum
    from cherab.core.model.lineshape.stark import add_lorentzian_line
    sp = Spectrum(655.0, 657.2, 11)
    return [float(x) for x in add_lorentzian_line(2.5, 656.1, 0.08, sp, integ).samples]


def replay(rec, ctx):
    from cherab.core.math.integrators import GaussianQuadrature
    h = rec["h"]
    q = GaussianQuadrature(relative_tolerance=RTOL[1], max_order=h[0]["hi"], min_order=h[0]["lo"])
    outcome = "ok"
    for e in h[1:]:
        outcome = "ok"
        try:
            if e["op"] == "integrate":
                q.integrand = _poly(3, 0.25)
                q(0.0, 1.0)
            elif e["op"] == "relative_tolerance":
                q.relative_tolerance = RTOL[e["v"] if e["v"] >= 1 else (0 if e["v"] == 0 else -1)]
            else:
                setattr(q, e["op"], e["v"])
        except ValueError:
            outcome = "ValueError"
        except Exception as ex:          # noqa: BLE001
            outcome = "raised-" + type(ex).__name__
    last = h[-1]
    name = last["op"] + ("[refused]" if rec["outcome"] != "ok" else "")
    viol = []

    def bad(what, detail):
        viol.append({"sig": f"quadrature:{name}:{what}", "detail": f"{detail} | history {json.dumps(h)[:300]}"})
    if outcome != rec["outcome"]:
        bad(f"outcome-{outcome}-expected-{rec['outcome']}", "")
        if outcome.startswith("raised"):
            return viol
    if (q.min_order, q.max_order) != (rec["lo"], rec["hi"]) or q.relative_tolerance != RTOL[rec["rtol"]]:
        bad("parameters-differ-from-spec", f"({q.min_order}, {q.max_order}, {q.relative_tolerance}) vs ({rec['lo']}, {rec['hi']}, {RTOL[rec['rtol']]})")
        return viol
    fresh = GaussianQuadrature(relative_tolerance=RTOL[rec["rtol"]], max_order=rec["hi"], min_order=rec["lo"])
    for k in range(0, 2 * rec["hi"] + 2):
        for (a, b) in INTERVALS:
            shift = 0.5 * (a + b) - 0.3
            f = _poly(k, shift)
            q.integrand = f
            fresh.integrand = f
            got, ref = q(a, b), fresh(a, b)
            if got != ref:
                bad("differs-from-freshly-constructed-integrator", f"x^{k} over ({a}, {b}): {got!r} vs {ref!r}")
                return viol
            if k <= rec["exact_degree"]:
                ex = _exact(k, a, b, shift)
                if abs(got - ex) > 1e-12 * max(abs(ex), (b - a) ** (k + 1)):
                    bad("polynomial-within-exact-degree-not-integrated-exactly", f"x^{k} over ({a}, {b}): {got!r} vs {ex!r} (min_order {rec['lo']})")
                    return viol
    if _lorentz_bins(q) != _lorentz_bins(fresh):
        bad("stark-lorentzian-bins-differ-from-fresh-integrator", "")
    return viol


CFG = """SPECIFICATION Spec
CONSTANTS
  MaxOrd = {maxord}
  MaxHist = {depth}
INVARIANT TableCurrent
INVARIANT RangeValid
VIEW View
ACTION_CONSTRAINT Emit
"""

SPEC_MUTANTS = [
    ("min-setter-keeps-table", "THEN lo' = v /\\ table' = <<v, hi>>", "THEN lo' = v /\\ table' = table"),
    ("max-setter-keeps-table", "THEN hi' = v /\\ table' = <<lo, v>>", "THEN hi' = v /\\ table' = table"),
    ("min-above-max-accepted", "SetMin(v) == IF v >= 1 /\\ v <= hi", "SetMin(v) == IF v >= 1"),
]


def run_part(v):
    depth, maxord = (2, 3) if v.tier == "quick" else (3, 4)
    cfg = CFG.format(maxord=maxord, depth=depth)
    res = core.run_tlc("Quadrature", cfg, workers=1, seed=v.seed, timeout=1800, tag="C02-quad")
    core.tlc_must_pass(res, "Quadrature")
    v.add_tlc(res, "Quadrature")
    edges = [r for r in res.records if "h" in r]
    ops = {}
    for r in edges:
        k = r["h"][-1]["op"] + ("!" if r["outcome"] != "ok" else "")
        ops[k] = ops.get(k, 0) + 1
    for need in ("min_order", "min_order!", "max_order", "max_order!", "relative_tolerance", "relative_tolerance!", "integrate"):
        if need not in ops:
            raise core.MachineryError(f"vacuity: Quadrature never took {need}")
    out = core.fan_out("mbt.c02_quad", "replay", edges, None)
    for r, vs in zip(edges, out):
        for x in vs:
            v.violation(x["sig"], x["detail"], dict(r, part="quadrature"))
    v.add_cases(len(edges), keys=[json.dumps(r["h"]) for r in edges])
    v.notes["quadrature_edges_per_last_action"] = ops
    if v.tier == "thorough":
        from . import specmut
        v.notes["quadrature_spec_mutants"] = specmut.audit("Quadrature", cfg.replace("ACTION_CONSTRAINT Emit\n", ""), SPEC_MUTANTS)
        from . import apalache
        v.notes["quadrature_inductive_invariant_any_history_length"] = apalache.inductive(
            v, "C02-quad", "Quadrature", "MC_Quadrature", ("min-setter-keeps-table", "THEN lo' = v /\\ table' = <<v, hi>>", "THEN lo' = v /\\ table' = table"))


def selftest():
    h = [{"op": "init", "lo": 1, "hi": 3}, {"op": "min_order", "v": 2}]
    rec = {"h": h, "lo": 2, "hi": 3, "rtol": 1, "outcome": "ok", "exact_degree": 3}
    good = replay(rec, None)
    bad = replay(dict(rec, lo=1, exact_degree=1), None)
    return not good and bool(bad)
