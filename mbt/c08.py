"""C08 - ADF parsers.  Spec: spec/AdfFormat.tla (abstract documents + documented conventions).

(R) every abstract document TLC enumerates is rendered to text by the writers below (the only ADF format knowledge in
    Python), parsed with parse_adf11/12/15/21/22 and installed with install_adf* into a temporary repository; parsed
    tables and read-back tables are compared entry by entry with Val(block, row, column) under the spec's conventions.
"""
import json
import math
import os
import shutil
import tempfile

from . import core

_HOME = core.OUT / "home"
os.environ["HOME"] = str(_HOME)

EL = {2: "helium", 10: "neon", 18: "argon"}


def per_line(vals, fmt, n):
    return "\n".join("".join(fmt % v for v in vals[i:i + n]) for i in range(0, len(vals), n)) + "\n"


# ----------------------------------------------------------------------------- value maps (mantissa -> number in the file)
def v11(b, i, j):            # log10 value of block b, temperature row i, density column j
    return -(5.0 + (10000 * b + 100 * i + j) / 10000.0)


def dens11(i):
    return (40 + i) / 4.0      # log10 cm^-3


def temp11(j):
    return j / 8.0            # log10 eV


def write_adf11(d, path, element_name):
    name = element_name.upper() if d["match"] else "CARBON"
    s = "%5d%5d%5d%5d%5d     /%-15s/TEST DATA\n" % (d["z"], d["nd"], d["nt"], d["zmin"], d["zmax"], name)
    s += "-" * 80 + "\n"
    s += per_line([dens11(i) for i in range(1, d["nd"] + 1)], "%10.5f", 8)
    s += per_line([temp11(j) for j in range(1, d["nt"] + 1)], "%10.5f", 8)
    for b in range(d["zmin"], d["zmax"] + 1):
        s += "--------------------/ IPRT= 1  / IGRD= 1  /--------/ Z1=%2d   / DATE= 01/01/01\n" % b
        vals = [v11(b, it, idn) for it in range(1, d["nt"] + 1) for idn in range(1, d["nd"] + 1)]
        s += per_line(vals, "%10.5f", 8)
    s += "C" + "-" * 79 + "\n"
    if d.get("tail", "comments") == "comments":
        s += "C\nC  synthetic file\nC\n" + "C" + "-" * 79 + "\n"
    open(path, "w").write(s)


def check_adf11(d, exp, root, bad):
    import numpy as np
    from cherab.core.atomic import elements as E
    from cherab.openadas.parse import parse_adf11
    from cherab.openadas import install as I
    from cherab.openadas import repository as R
    el = getattr(E, EL[d["z"]])
    path = os.path.join(root, "file.dat")
    write_adf11(d, path, el.name)
    try:
        out = parse_adf11(el, path)
    except ValueError:
        if exp["outcome"] != "ValueError":
            bad("adf11:raised-ValueError", "well-formed file rejected")
        return
    except Exception as ex:          # noqa: BLE001
        bad(f"adf11:raised-{type(ex).__name__}", repr(ex)[:200])
        return
    if exp["outcome"] != "ok":
        bad("adf11:element-mismatch-not-rejected", "")
        return
    blocks = range(d["zmin"], d["zmax"] + 1)
    got_keys = sorted(out[el].keys())
    if got_keys != list(blocks):
        bad("adf11:blocks-assigned-to-wrong-charge-labels", f"parsed keys {got_keys}, file has Z1 = {list(blocks)}")
        return
    ne = [dens11(i) for i in range(1, d["nd"] + 1)]
    te = [temp11(j) for j in range(1, d["nt"] + 1)]
    for b in blocks:
        t = out[el][b]
        want = np.array([[v11(b, it, idn) for it in range(1, d["nt"] + 1)] for idn in range(1, d["nd"] + 1)])
        if not (np.allclose(t["ne"], ne, rtol=1e-12) and np.allclose(t["te"], te, rtol=1e-12)):
            bad("adf11:axes-differ", f"block {b}")
        elif np.shape(t["rates"]) != want.shape or not np.allclose(t["rates"], want, rtol=1e-12, atol=0):
            bad("adf11:table-differs-or-transposed", f"block Z1={b}: shape {np.shape(t['rates'])} vs (density, temperature) = {want.shape}")
    # install + read back under the charge-state convention
    if d["nd"] < 1 or d["nt"] < 1:
        return
    cls = d["cls"]
    repo = os.path.join(root, "repo")
    adas = root
    inst = {"scd": lambda: I.install_adf11scd(el, "file.dat", repository_path=repo, adas_path=adas),
            "acd": lambda: I.install_adf11acd(el, "file.dat", repository_path=repo, adas_path=adas),
            "ccd": lambda: I.install_adf11ccd(E.hydrogen, 0, el, "file.dat", repository_path=repo, adas_path=adas),
            "plt": lambda: I.install_adf11plt(el, "file.dat", repository_path=repo, adas_path=adas),
            "prb": lambda: I.install_adf11prb(el, "file.dat", repository_path=repo, adas_path=adas),
            "prc": lambda: I.install_adf11prc(el, "file.dat", repository_path=repo, adas_path=adas)}[cls]
    get = {"scd": lambda q: R.get_ionisation_rate(el, q, repository_path=repo), "acd": lambda q: R.get_recombination_rate(el, q, repository_path=repo),
           "ccd": lambda q: R.get_thermal_cx_rate(E.hydrogen, 0, el, q, repository_path=repo), "plt": lambda q: R.get_line_radiated_power_rate(el, q, repository_path=repo),
           "prb": lambda q: R.get_continuum_radiated_power_rate(el, q, repository_path=repo), "prc": lambda q: R.get_cx_radiated_power_rate(el, q, repository_path=repo)}[cls]
    try:
        inst()
    except Exception as ex:          # noqa: BLE001
        bad(f"adf11:install-{cls}-raised-{type(ex).__name__}", repr(ex)[:200])
        return
    for b in blocks:
        q = exp["blocks"][str(b)]["charge"] if isinstance(exp["blocks"], dict) else exp["blocks"][b - d["zmin"]]["charge"]
        try:
            t = get(q)
        except RuntimeError:
            bad(f"adf11:install-{cls}:block-not-readable-under-its-charge", f"file block Z1={b} should be charge {q}")
            continue
        want = np.array([[10 ** v11(b, it, idn) * 1e-6 for it in range(1, d["nt"] + 1)] for idn in range(1, d["nd"] + 1)])
        if not (np.allclose(t["ne"], [10 ** x * 1e6 for x in ne], rtol=1e-12) and np.allclose(t["te"], [10 ** x for x in te], rtol=1e-12)
                and np.shape(t["rate"]) == want.shape and np.allclose(t["rate"], want, rtol=1e-12, atol=0)):
            bad(f"adf11:install-{cls}:readback-differs", f"block Z1={b} -> charge {q}")
    extra = []
    lo = d["zmin"] + (-1 if cls in ("scd", "plt") else 0)
    hi = d["zmax"] + (-1 if cls in ("scd", "plt") else 0)
    for q in range(-1, d["z"] + 2):
        if lo <= q <= hi:
            continue
        try:
            get(q)
            extra.append(q)
        except RuntimeError:
            pass
    if extra:
        bad(f"adf11:install-{cls}:phantom-charge-states", str(extra))


# ----------------------------------------------------------------------------- ADF21 / ADF22
def v2(i, j):
    return (1000 + 10 * i + j) * 1e-11


def write_adf2x(d, path):
    ne, nn, ntt = d["ne"], d["nn"], d["ntt"]
    s = "ZT=%2d  SVREF=%9.3E SPEC= H  DATE= 01/01/01 CODE= TEST\n" % (1, 5.432e-8)
    s += "-" * 60 + "\n"
    s += " %4d %4d  TREF=%9.3E\n" % (ne, nn, 2.0e3)
    s += "-" * 60 + "\n"
    s += per_line([1.0e3 * (i + 1) for i in range(ne)], " %9.3E", 8)
    s += per_line([1.0e12 * (j + 2) for j in range(nn)], " %9.3E", 8)
    s += "-" * 60 + "\n"
    for j in range(nn):
        s += per_line([v2(i + 1, j + 1) for i in range(ne)], " %9.3E", 8)
    s += "-" * 60 + "\n"
    s += " %4d  EREF=%9.3E  NREF=%9.3E\n" % (ntt, 4.0e4, 6.0e13)
    s += "-" * 60 + "\n"
    s += per_line([10.0 * (k + 1) for k in range(ntt)], " %9.3E", 8)
    s += "-" * 60 + "\n"
    s += per_line([v2(50 + k, 0) for k in range(ntt)], " %9.3E", 8)
    s += "C" + "-" * 59 + "\n"
    open(path, "w").write(s)


def check_adf2x(d, exp, root, bad):
    import numpy as np
    from cherab.core.atomic import elements as E
    from cherab.openadas.parse import parse_adf21, parse_adf22bmp, parse_adf22bme
    from cherab.openadas import install as I
    from cherab.openadas import repository as R
    path = os.path.join(root, "file.dat")
    write_adf2x(d, path)
    f = d["file"]
    b, t = E.deuterium, E.carbon
    repo = os.path.join(root, "repo")
    try:
        if f == "adf21":
            out = parse_adf21(b, t, 6, path)[b][t][6]
            I.install_adf21(b, t, 6, "file.dat", repository_path=repo, adas_path=root)
            back = R.get_beam_stopping_rate(b, t, 6, repository_path=repo)
        elif f == "adf22bmp":
            out = parse_adf22bmp(b, 2, t, 6, path)[b][2][t][6]
            I.install_adf22bmp(b, 2, t, 6, "file.dat", repository_path=repo, adas_path=root)
            back = R.get_beam_population_rate(b, 2, t, 6, repository_path=repo)
        else:
            out = parse_adf22bme(b, t, 6, (3, 2), path)[b][t][6][(3, 2)]
            I.install_adf22bme(b, t, 6, (3, 2), "file.dat", repository_path=repo, adas_path=root)
            back = R.get_beam_emission_rate(b, t, 6, (3, 2), repository_path=repo)
    except Exception as ex:          # noqa: BLE001
        bad(f"{f}:raised-{type(ex).__name__}", repr(ex)[:200])
        return
    conv = 1e-6 if exp["cm3"] else 1.0
    ne, nn, ntt = d["ne"], d["nn"], d["ntt"]
    want = {"e": [1.0e3 * (i + 1) for i in range(ne)], "n": [1.0e12 * (j + 2) * 1e6 for j in range(nn)], "t": [10.0 * (k + 1) for k in range(ntt)],
            "sen": [[float("%9.3E" % v2(i + 1, j + 1)) * conv for j in range(nn)] for i in range(ne)], "st": [float("%9.3E" % v2(50 + k, 0)) * conv for k in range(ntt)],
            "eref": 4.0e4, "nref": 6.0e13 * 1e6, "tref": 2.0e3, "sref": 5.432e-8 * conv}
    for src, tab in (("parse", out), ("readback", back)):
        for k, w in want.items():
            g = np.asarray(tab[k], float)
            if g.shape != np.asarray(w).shape or not np.allclose(g, w, rtol=1e-12, atol=0):
                bad(f"{f}:{src}:{k}-differs", f"shape {g.shape} vs {np.asarray(w).shape}; first {g.ravel()[:3]} vs {np.asarray(w).ravel()[:3]}")
                break


# ----------------------------------------------------------------------------- ADF15
def v15(k, i, j):
    return (1000 + 100 * k + 10 * i + j) * 1e-13       # block k, density i, temperature j


def write_adf15(d, exp, path):
    nb, nd, nt = d["nb"], d["nd"], d["nt"]
    blocks = exp["blocks"] if isinstance(exp["blocks"], list) else [exp["blocks"][str(k)] for k in range(1, nb + 1)]
    order = list(reversed(blocks)) if d["perm"] else list(blocks)
    s = "%5d    /TEST PHOTON EMISSIVITY COEFFICIENTS/\n" % nb
    typ = {"excitation": "EXCIT", "recombination": "RECOM", "thermalcx": "CHEXC"}
    for b in order:
        k = b["isel"]
        if d["missing"] == "low" and k == 1:
            continue                    # the index below still lists ISEL = 1
        s += "%8.1f A%5d%5d /FILMEM = test    /TYPE = %-5s /INDM = T /ISEL = %4d\n" % (b["wavelength_A"], nd, nt, typ[b["cls"]], k)
        s += per_line([1.0e8 * (i + 1) for i in range(nd)], "%9.2E", 8)
        s += per_line([2.0 * (j + 1) for j in range(nt)], "%9.2E", 8)
        for i in range(nd):
            s += per_line([v15(k, i + 1, j + 1) for j in range(nt)], "%9.2E", 8)
    s += "C" + "-" * 71 + "\nC\nC  synthetic file\nC\n"
    index = list(order)
    if d["missing"] == "extra":
        index = index + [{"isel": nb + 1, "cls": "excitation", "upper": nb + 3, "lower": nb + 2, "wavelength_A": 9999.0}]
    if d["header"] == "full":
        s += "C  Configuration        (2S+1)L(w-1/2)   Energy (cm**-1)\nC  --------------------------------------------------------\n"
        levels = exp.get("levels") or [{"L": 1, "letter": "P"}] * (nb + 4)
        for lev in range(1, nb + 5):
            s += "C %5d   1S2 %dP1            (2)%d( 1.5) %14.1f\n" % (lev, lev, levels[lev - 1]["L"], 1000.0 * lev)
        s += "C\n"
    s += "C  ISEL  WAVELENGTH      TRANSITION            TYPE\n"
    if d.get("rule", True):
        s += "C  ----  ----------  ----------------------  -----\n"
    for b in index:
        if d["header"] == "hydrogen":
            s += "C  %3d.  %10.2f        N=%2d - N=%2d        %s\n" % (b["isel"], b["wavelength_A"], b["upper"], b["lower"], typ[b["cls"]])
        else:
            s += "C  %3d.  %10.2f    %2d(2)1( 1.5)- %2d(2)0( 0.5)    %s\n" % (b["isel"], b["wavelength_A"], b["upper"], b["lower"], typ[b["cls"]])
    s += "C\nC" + "-" * 71 + "\n"
    open(path, "w").write(s)
    return blocks


def check_adf15(d, exp, root, bad):
    import numpy as np
    from cherab.core.atomic import elements as E
    from cherab.openadas.parse import parse_adf15
    from cherab.openadas import install as I
    from cherab.openadas import repository as R
    path = os.path.join(root, "file.dat")
    blocks = write_adf15(d, exp, path)
    hdr = d["header"]
    el, q = {"hydrogen": (E.hydrogen, 0), "hydrogen-like": (E.carbon, 5), "full": (E.carbon, 2)}[hdr]
    tag = f"adf15[{hdr}]" + ("" if d.get("rule", True) else "[no-rule-line]")
    try:
        rates, wl = parse_adf15(el, q, path)
    except RuntimeError as ex:
        if exp["outcome"] != "RuntimeError":
            bad(f"{tag}:raised-RuntimeError", repr(ex)[:200])
        return
    except Exception as ex:          # noqa: BLE001
        bad(f"{tag}:raised-{type(ex).__name__}", repr(ex)[:200])
        return
    if exp["outcome"] != "ok":
        bad(f"{tag}:absent-block-not-rejected", "the index lists a block that is not in the file")
        return
    nd, nt = d["nd"], d["nt"]

    def key(b):
        if hdr == "full":
            lv = exp.get("levels") or [{"L": 1, "letter": "P"}] * (d["nb"] + 4)
            return tuple("1s2 %dp1 2%s1.5" % (b[e], lv[b[e] - 1]["letter"]) for e in ("upper", "lower"))
        return (b["upper"], b["lower"])
    cls_name = {"excitation": "excitation", "recombination": "recombination", "thermalcx": "thermalcx"}
    for b in blocks:
        c = cls_name[b["cls"]]
        try:
            # the parser returns RecursiveDicts, which create missing entries on access: test membership explicitly
            if key(b) not in rates[c][el][q] or key(b) not in wl[el][q]:
                raise KeyError(key(b))
            t = rates[c][el][q][key(b)]
            w = wl[el][q][key(b)]
        except Exception:            # noqa: BLE001
            bad(f"{tag}:transition-missing", f"block ISEL={b['isel']} ({c}, {key(b)}); parsed keys {[list(rates[cc][el][q].keys()) for cc in rates]}")
            continue
        want = np.array([[float("%9.2E" % v15(b["isel"], i + 1, j + 1)) * 1e-6 for j in range(nt)] for i in range(nd)])
        if not core.close(float(w), b["wavelength_A"] / 10.0, rtol=1e-12):
            bad(f"{tag}:wavelength-differs", f"ISEL {b['isel']}: {w} nm vs {b['wavelength_A'] / 10.0}")
        if not (np.allclose(t["ne"], [1.0e8 * (i + 1) * 1e6 for i in range(nd)], rtol=1e-12) and np.allclose(t["te"], [2.0 * (j + 1) for j in range(nt)], rtol=1e-12)):
            bad(f"{tag}:axes-differ", f"ISEL {b['isel']}")
        elif np.shape(t["rate"]) != want.shape or not np.allclose(t["rate"], want, rtol=1e-12, atol=0):
            bad(f"{tag}:block-assigned-to-wrong-transition-or-table-differs", f"ISEL {b['isel']} {key(b)}" + (" (index order differs from block order)" if d["perm"] else ""))
    # install and read back
    repo = os.path.join(root, "repo")
    try:
        I.install_adf15(el, q, "file.dat", repository_path=repo, adas_path=root)
    except Exception as ex:          # noqa: BLE001
        bad(f"{tag}:install-raised-{type(ex).__name__}", repr(ex)[:200])
        return
    for b in blocks:
        want = np.array([[float("%9.2E" % v15(b["isel"], i + 1, j + 1)) * 1e-6 for j in range(nt)] for i in range(nd)])
        try:
            if b["cls"] == "excitation":
                t = R.get_pec_excitation_rate(el, q, key(b), repository_path=repo)
            elif b["cls"] == "recombination":
                t = R.get_pec_recombination_rate(el, q, key(b), repository_path=repo)
            else:
                t = R.get_pec_thermal_cx_rate(E.hydrogen, 0, el, q + 1, key(b), repository_path=repo)
                want = np.repeat(want[:, :, None], 2, axis=2)
            w = R.get_wavelength(el, q, key(b), repository_path=repo)
        except RuntimeError:
            bad(f"{tag}:install:{b['cls']}-block-not-readable-from-the-repository-given", f"ISEL {b['isel']}")
            continue
        if np.shape(t["rate"]) != want.shape or not np.allclose(t["rate"], want, rtol=1e-12, atol=0) or not core.close(float(w), b["wavelength_A"] / 10.0, rtol=1e-12):
            bad(f"{tag}:install:readback-differs", f"ISEL {b['isel']}")
    if (_HOME / ".cherab").exists() and os.listdir(_HOME / ".cherab"):
        bad(f"{tag}:install:wrote-outside-the-repository-given", f"files appeared under $HOME/.cherab")
        shutil.rmtree(_HOME / ".cherab", ignore_errors=True)


# ----------------------------------------------------------------------------- ADF12
def v12(b, t, i):
    return (1000 + 100 * b + 10 * t + i) * 1e-10


def write_adf12(d, path):
    s = "   %2d\n" % d["nblk"]
    cnt = [d["neb"], d["nti"], d["nni"], d["nz"], d["nbm"]]
    cap = [24, 12, 24, 12, 12]
    for b in range(1, d["nblk"] + 1):
        s += " " * 38 + "%2d %2d\n" % (b + 2, b + 1)
        s += per_line([v12(b, 9, 0)], " %9.3E", 6)
        s += per_line([4.0e4, 1.0e3, 2.0e13, 2.0, 3.0], " %9.3E", 6)
        s += per_line(cnt, " %9d", 6)
        for t in range(5):
            xs = [float(i + 1) * (10.0 ** t) for i in range(cnt[t])] + [0.0] * (cap[t] - cnt[t])
            qs = [v12(b, t, i + 1) for i in range(cnt[t])] + [0.0] * (cap[t] - cnt[t])
            s += per_line(xs, " %9.3E", 6)
            s += per_line(qs, " %9.3E", 6)
    s += "C" + "-" * 60 + "\n"
    open(path, "w").write(s)


def check_adf12(d, exp, root, bad):
    import numpy as np
    from cherab.core.atomic import elements as E
    from cherab.openadas.parse import parse_adf12
    from cherab.openadas import install as I
    from cherab.openadas import repository as R
    path = os.path.join(root, "file.dat")
    write_adf12(d, path)
    dn, rc = E.hydrogen, E.carbon
    repo = os.path.join(root, "repo")
    try:
        out = parse_adf12(dn, 1, rc, 6, path)[dn][rc][6]
        I.install_adf12(dn, 1, rc, 6, "file.dat", repository_path=repo, adas_path=root)
    except Exception as ex:          # noqa: BLE001
        bad(f"adf12:raised-{type(ex).__name__}", repr(ex)[:200])
        return
    cnt = [d["neb"], d["nti"], d["nni"], d["nz"], d["nbm"]]
    names = [("eb", "qeb"), ("ti", "qti"), ("ni", "qni"), ("z", "qz"), ("b", "qb")]
    for b in range(1, d["nblk"] + 1):
        tr = (b + 2, b + 1)
        try:
            t = out[tr][1]
            back = dict(R.get_beam_cx_rates(dn, rc, 6, tr, repository_path=repo))[1]
        except Exception as ex:      # noqa: BLE001
            bad("adf12:block-missing", f"transition {tr}: {type(ex).__name__}")
            continue
        for src, tab in (("parse", t), ("readback", back)):
            okk = core.close(float(tab["qref"]), float("%9.3E" % v12(b, 9, 0)) * 1e-6, rtol=1e-12)
            for ti, (xn, qn) in enumerate(names):
                wx = [float(i + 1) * (10.0 ** ti) * (1e6 if xn == "ni" else 1.0) for i in range(cnt[ti])]
                wq = [float("%9.3E" % v12(b, ti, i + 1)) * 1e-6 for i in range(cnt[ti])]
                gx, gq = np.asarray(tab[xn], float), np.asarray(tab[qn], float)
                if gx.shape != (cnt[ti],) or not np.allclose(gx, wx, rtol=1e-12) or not np.allclose(gq, wq, rtol=1e-12, atol=0):
                    okk = False
            if not okk:
                bad(f"adf12:{src}-differs", f"block {b} transition {tr}")


CHECKS = {"adf11": check_adf11, "adf2x": check_adf2x, "adf15": check_adf15, "adf12": check_adf12}


def replay(rec, ctx):
    d, exp = rec["doc"], rec["exp"]
    viol = []
    tmpbase = "/dev/shm" if os.path.isdir("/dev/shm") else str(core.OUT)
    root = tempfile.mkdtemp(prefix="c08-", dir=tmpbase)

    def bad(what, detail):
        viol.append({"sig": what, "detail": f"{detail} | doc {json.dumps(d)}"})
    try:
        import io
        import contextlib
        with contextlib.redirect_stdout(io.StringIO()):
            CHECKS[d["kind"]](d, exp, root, bad)
    finally:
        shutil.rmtree(root, ignore_errors=True)
    return viol


CFG = """SPECIFICATION Spec
CONSTANTS
  Kinds = {{"adf11", "adf15", "adf2x", "adf12"}}
  Deep = {deep}
INVARIANT ChargesDistinct
INVARIANT ValInjective
INVARIANT EmitCase
"""


def run(v):
    shutil.rmtree(_HOME / ".cherab", ignore_errors=True)
    res = core.run_tlc("AdfFormat", CFG.format(deep="TRUE" if v.tier == "thorough" else "FALSE"), workers=1, seed=v.seed, timeout=3000)
    core.tlc_must_pass(res, "AdfFormat")
    v.add_tlc(res, "AdfFormat")
    cases = [r for r in res.records if "doc" in r]
    kinds = {r["doc"]["kind"] for r in cases}
    if kinds != {"adf11", "adf15", "adf2x", "adf12"} or len(cases) < 2000:
        raise core.MachineryError(f"vacuity: kinds {kinds}")
    if v.tier == "quick":
        import random
        rng = random.Random(v.seed)
        cases = [r for r in cases if r["doc"]["kind"] != "adf11" or r["doc"]["zmax"] >= 10 or rng.random() < 0.6]
    out = core.fan_out("mbt.c08", "replay", cases, None)
    for r, vs in zip(cases, out):
        for x in vs:
            v.violation(x["sig"], x["detail"], r)
    v.add_cases(len(cases), keys=[json.dumps(r["doc"], sort_keys=True) for r in cases])
    v.sample(next(r for r in cases if r["doc"]["kind"] == "adf11" and r["doc"]["zmax"] == 18))
    v.sample(next(r for r in cases if r["doc"]["kind"] == "adf15" and r["doc"]["perm"]))
    v.assumptions += ["files are rendered by the writers in mbt/c08.py: ADF11 and the value/wrapping layout of all formats follow the published fixed-width conventions; the header column positions of ADF12/21/22 "
                      "and the ADF15 index-line wording could not be checked against real open-ADAS files offline and follow the columns the parser documents (see DESIGN.md)",
                      "unresolved ADF11 only; temperatures chosen with non-negative log10 so that short density grids are not mistaken for resolved files"]
    return v.finish(rule="one case = one abstract ADF document enumerated by TLC, rendered to text, parsed, installed into a temporary repository and read back; distinct = distinct documents")


def selftest():
    rec = {"doc": {"kind": "adf11", "cls": "acd", "z": 2, "nd": 3, "nt": 2, "zmin": 1, "zmax": 2, "match": True},
           "exp": {"blocks": [{"charge": 1, "file_label": 1}, {"charge": 2, "file_label": 2}], "axis_order": ["density", "temperature"], "outcome": "ok"}}
    good = replay(rec, None)
    bad = replay({"doc": rec["doc"], "exp": dict(rec["exp"], blocks=[{"charge": 0, "file_label": 1}, {"charge": 1, "file_label": 2}])}, None)
    ok = not good and bool(bad)
    print("C08 selftest:", "ok" if ok else "FAILED", good[:1], bad[:1])
    return 0 if ok else 2
