"""C05 - beam CX (population-weighted mean) and beam emission (charged sum).  Spec: spec/Emission.tla (models bcx, bes).

(R) every configuration TLC enumerates is executed through BeamCXLine / BeamEmissionLine.emission on a real Beam with a
    constant-density attenuator stub and a mock provider; totals vs the spec's exact fraction / 4 pi.
(T) the arguments every coefficient was evaluated with (interaction energy, temperature, total ion density, Z-effective,
    |B|; equivalent electron density per species) are compared with the spec's composition sums.
"""
import json
import math
import numpy as np
from fractions import Fraction

from . import core
from . import emission_common as EC
from . import c03

ENERGY = 50000.0


def replay_any(rec, ctx):
    if rec.get("part") == "composition":
        from . import c05_composition
        return c05_composition.replay(rec, ctx)
    return replay(rec, ctx)


def replay(rec, ctx):
    from raysect.core import Point3D, Vector3D
    from raysect.optical import Spectrum
    from cherab.core import Beam
    from cherab.core.beam import BeamAttenuator
    from cherab.core.atomic import Line
    from cherab.core.model import BeamCXLine, BeamEmissionLine
    rates = dict((ctx or rec)["rates"], bcx_zero=rec.get("bcx_zero", 0))
    calls = EC.Calls()
    nu0 = EC.nu(rec)
    efac0 = {s: f[0] / f[1] for s, f in rec.get("efac", {}).items()}

    def expect(tag):
        if not rec.get("zeff") or not rec["zeff"][1]:
            return None
        z2n_, zn_ = rec["zeff"]
        if tag == "bcx":
            return (ENERGY * efac0.get("c6", 1.0), float(rec["temp"]["c6"]), rec["nion"] * nu0, z2n_ / zn_, 5.0)
        if tag.startswith(("bmp:", "bes:")):
            s_ = tag.split(":")[1]
            zi_ = rec["species"][s_][1]
            return (ENERGY * efac0.get(s_, 1.0), (z2n_ * nu0 / zi_) if zi_ else math.inf, float(rec["temp"][s_]))
        return None
    ad = EC.provider(rates, calls, expect)
    from scipy import constants as K
    vb = math.sqrt(2 * ENERGY * K.e / K.atomic_mass)
    from raysect.core import rotate_y, rotate_z, AffineMatrix3D
    xf = rotate_y(35) * rotate_z(20) if rec.get("frame") == "rotated" else AffineMatrix3D()

    def to_plasma(v):
        w = Vector3D(*v).transform(xf)
        return (w.x, w.y, w.z)
    pl = EC.plasma(rec, vel={s: to_plasma([c * vb / 10.0 for c in v]) for s, v in rec.get("vel", {}).items()})
    efac = {s: f[0] / f[1] for s, f in rec.get("efac", {}).items()}
    m = rec["model"]
    nu = EC.nu(rec)
    nb = rec["nb"] * nu

    class Att(BeamAttenuator):
        clamp_sigma = 5.0             # read by the beam when it builds its bounding geometry

        def density(self, x, y, z):
            return nb

    beam = Beam(transform=xf)
    beam.plasma = pl
    beam.atomic_data = ad
    beam.energy = ENERGY
    beam.power = 1e6
    beam.element = EC.element("d")
    beam.temperature = 10.0
    beam.attenuator = Att()
    d, c = EC.element("d"), EC.element("c")
    model = BeamCXLine(Line(c, 5, (8, 7))) if m == "bcx" else BeamEmissionLine(Line(d, 0, (3, 2)))
    if rec.get("prior", "none") == "mutated":
        beam.models = [model]          # attached the public way: the beam configures the model and re-attaches it on every rebuild
    else:
        model.beam = beam
        model.plasma = pl
        model.atomic_data = ad
    viol = []

    def bad(what, detail):
        viol.append({"sig": f"{m}:{what}" + ("" if rec.get("prior", "none") == "none" else f"@after-other-{rec['prior']}"), "detail": f"{detail} | dens={rec['dens']} temp={rec['temp']} nb={rec['nb']} flow={rec.get('flow')}"})
    bdir = Vector3D(0, 0, 1).transform(xf)          # beam axis in plasma space
    ev = lambda: model.emission(Point3D(0, 0, 0.5), Point3D(0.1, 0.2, 0.3), bdir, Vector3D(1, 0, 0), Spectrum(c03.LO, c03.HI, c03.BINS))   # noqa: E731
    ev0 = lambda: model.emission(Point3D(0, 0, 0.5), Point3D(*EC.ELSEWHERE), bdir, Vector3D(1, 0, 0), Spectrum(c03.LO, c03.HI, c03.BINS))   # noqa: E731
    EC.prior_phase(rec, rates, model, ev, calls, ad, pl, beam=beam, evaluate_elsewhere=ev0)
    sp = Spectrum(c03.LO, c03.HI, c03.BINS)
    try:
        out = model.emission(Point3D(0, 0, 0.5), Point3D(0.1, 0.2, 0.3), bdir, Vector3D(1, 0, 0), sp)
    except RuntimeError as ex:
        if not rec["raises"]:
            bad("raised-RuntimeError", repr(ex)[:150])
        return viol
    except Exception as ex:       # noqa: BLE001
        bad(f"raised-{type(ex).__name__}", repr(ex)[:150])
        return viol
    if rec["raises"]:
        bad("missing-species-not-reported", f"needs {rec['needs']}")
        return viol
    samples = [float(x) for x in out.samples]
    base_level = max(max(samples), 1e-30) * 0.5
    sp2 = Spectrum(c03.LO, c03.HI, c03.BINS)
    sp2.samples[:] = base_level
    out2 = model.emission(Point3D(0, 0, 0.5), Point3D(0.1, 0.2, 0.3), bdir, Vector3D(1, 0, 0), sp2)
    inc = [float(x) - base_level for x in out2.samples]
    if any(abs(a - b) > 1e-9 * max(abs(base_level), abs(b)) for a, b in zip(inc, samples)):
        bad("does-not-add-to-the-spectrum-it-is-given", "the increase on a pre-filled spectrum differs from the emission into an empty one")
    integral = sum(samples) * (c03.HI - c03.LO) / c03.BINS
    num, den = rec["beam_total"]
    want = (float(Fraction(num, den)) if den else 0.0) * nu * nu * EC.UNIT / (4 * math.pi)
    if not core.close(integral, want, rtol=1e-9, atol=1e-300):
        kind = "nonzero-where-zero-expected" if want == 0 else ("zero-where-emission-expected" if integral == 0 else "total-differs")
        bad(kind, f"integrated emission {integral!r}, spec {num}/{den} x scale / 4pi = {want!r}")
    # a line shape that does not depend on the receiver temperature (a user LineShapeModel): where the spec says nothing is emitted
    # (zero receiver density or temperature, zero beam density) the shape must be handed nothing at all
    if m == "bcx" and want == 0 and rec.get("prior", "none") == "none":
        from cherab.core.model.lineshape import LineShapeModel
        handed = []

        class Flat(LineShapeModel):
            def add_line(self, radiance, point, direction, spectrum):
                handed.append(radiance)
                spectrum.samples[:] = np.asarray(spectrum.samples) + radiance / (c03.HI - c03.LO)
                return spectrum
        flat = BeamCXLine(Line(c, 5, (8, 7)), lineshape=Flat)
        flat.beam, flat.plasma, flat.atomic_data = beam, pl, ad
        try:
            out3 = flat.emission(Point3D(0, 0, 0.5), Point3D(0.1, 0.2, 0.3), bdir, Vector3D(1, 0, 0), Spectrum(c03.LO, c03.HI, c03.BINS))
            if any(float(x) != 0.0 for x in out3.samples) or any(r != 0.0 for r in handed):
                bad("nonzero-where-zero-expected:temperature-independent-shape", f"a line of radiance {handed[:1]} handed to the line shape where the spec total is zero")
        except Exception as ex:       # noqa: BLE001
            bad(f"raised-{type(ex).__name__}:temperature-independent-shape", repr(ex)[:150])
    # (T) arguments of the coefficient evaluations (the mock coefficients answer correctly only at the documented arguments, so
    # a mix-up shows in the total above; the recorded calls name the reason, and are observations when the total is right)
    wrong_total = bool(viol)
    strict_bad = bad

    def bad(what, detail):      # noqa: F811
        if wrong_total:
            strict_bad(what, detail)
        else:
            viol.append({"observation": f"{m}:{what}"})
    if want:
        z2n, zn = rec["zeff"]
        for tag, args in [(x[1], x[2]) for x in calls if x[0] == "eval"]:
            if tag.startswith("bcx"):
                exp = (ENERGY * efac.get("c6", 1.0), float(rec["temp"]["c6"]), rec["nion"] * nu, z2n / zn, 5.0)
                if not core.close(list(args), list(exp), rtol=1e-9):
                    bad("cx-coefficient-evaluated-at-wrong-arguments", f"{tag}{args} vs (E_int, T_rec, n_ion, Zeff, |B|) = {exp}")
                    break
            elif tag.startswith(("bmp:", "bes:")):
                s = tag.split(":")[1]
                zi = rec["species"][s][1]
                exp_n = z2n * nu / zi if zi else math.inf
                exp = (ENERGY * efac.get(s, 1.0), exp_n, float(rec["temp"][s]))
                ok = core.close(args[0], exp[0], rtol=1e-9) and core.close(args[2], exp[2], rtol=1e-9) and \
                    (args[1] == exp[1] if math.isinf(exp_n) else core.close(args[1], exp[1], rtol=1e-9))
                if not ok and rec["dens"][s] > 0:
                    bad("beam-coefficient-evaluated-at-wrong-arguments", f"{tag}{args} vs (E_int, sum Z^2 n / Z_i, T_i) = {exp}")
                    break
    return viol


def run(v):
    c03.run_models(v, "mbt.c05", '{"bcx", "bes"}')
    from . import c05_composition
    c05_composition.run_part(v)
    v.assumptions += ["flowing species use Pythagorean relative velocities (exact interaction-energy fractions), in a beam frame rotated against the plasma frame",
                      "constant beam density from an attenuator stub; two beam metastables; neutrals take part with charge 0 (their equivalent density argument is infinite)"]
    return v.finish(rule="one case = one Emission.tla configuration (beam model, ion composition, beam density) executed through BeamModel.emission; distinct = distinct configurations")


def selftest():
    rates = {"exc": 3, "rec": 5, "plt": 11, "prb": 13, "prc": 17, "gaunt": 2, "tcx": {}, "bmp": {"d0": [2, 5], "d1": [3, 6], "he1": [4, 7], "c5": [5, 8], "c6": [6, 9]},
             "bes": {"d0": 25, "d1": 27, "he1": 29, "c5": 31, "c6": 33}, "bcx": [23, 27, 31]}
    rec = {"model": "bes", "dens": {"d0": -9, "d1": 2, "he1": -9, "c5": -9, "c6": -9}, "temp": {"d0": 3, "d1": 3, "he1": 3, "c5": 3, "c6": 3}, "ne": 2, "te": 3, "nb": 4,
           "raises": False, "beam_total": [4 * 2 * 27, 1], "needs": [], "rates": rates, "zeff": [2, 2], "nion": 2,
           "species": {"d0": ["d", 0, 1], "d1": ["d", 1, 1], "he1": ["he", 1, 2], "c5": ["c", 5, 6], "c6": ["c", 6, 6]}}
    good = replay(rec, None)
    bad = replay(dict(rec, beam_total=[100, 1]), None)
    from . import c05_composition
    ok = not any("sig" in x for x in good) and any("sig" in x for x in bad) and c05_composition.selftest()
    print("C05 selftest:", "ok" if ok else "FAILED", good[:1], bad[:1])
    return 0 if ok else 2
