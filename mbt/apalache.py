"""Apalache front-end: unbounded checks of a specification's inductive invariant (Init => IndInv, IndInv /\\ Step => IndInv').

TLC explores histories up to a depth; an inductive invariant discharged symbolically holds for histories of any length.
A deliberately corrupted copy of the specification must be *rejected* (otherwise the invariant or the encoding is vacuous)."""
import os
import re
import shutil
import subprocess
from concurrent.futures import ThreadPoolExecutor

from . import core

APA = core.SPEC / "apalache"


def _run(tag, files, mc, args, timeout):
    d = core.OUT / "apalache" / f"{tag}-{os.getpid()}"
    shutil.rmtree(d, ignore_errors=True)
    d.mkdir(parents=True)
    for name, text in files.items():
        (d / name).write_text(text)
    cmd = ["apalache-mc", "check", f"--out-dir={d / 'out'}", "--run-dir=" + str(d / "run")] + args + [mc]
    try:
        p = subprocess.run(cmd, cwd=d, stdout=subprocess.PIPE, stderr=subprocess.STDOUT, text=True, timeout=timeout)
        out = p.stdout
    except subprocess.TimeoutExpired:
        out = "TIMEOUT"
    shutil.rmtree(d, ignore_errors=True)
    if "EXITCODE: OK" in out and "The outcome is: NoError" in out:
        return "holds"
    if "EXITCODE: ERROR (12)" in out or "invariant" in out and "violated" in out:
        return "violated"
    return "error: " + (re.findall(r"(?:E@|rror).*", out) or [out[-300:]])[0][:300]


def inductive(v, label, module, mc, mutant, timeout=1500):
    """module: spec name in spec/; mc: front-end module name in spec/apalache/ defining CInit, IndInit, Step and using IndInv.
    mutant = (name, old, new): a corruption of `module` under which the inductive step must fail.  -> dict for the evidence."""
    src = (core.SPEC / f"{module}.tla").read_text()
    files = {f"{module}.tla": src, "Json.tla": (APA / "Json.tla").read_text(), f"{mc}.tla": (APA / f"{mc}.tla").read_text()}
    base = ["--cinit=CInit", "--init=Init", "--inv=IndInv", "--length=0"]
    step = ["--cinit=CInit", "--init=IndInit", "--next=Step", "--inv=IndInv", "--length=1"]
    name, old, new = mutant
    if src.count(old) != 1:
        raise core.MachineryError(f"apalache mutant {name}: anchor occurs {src.count(old)} times")
    mfiles = dict(files)
    mfiles[f"{module}.tla"] = src.replace(old, new)
    jobs = [("base", files, base), ("step", files, step), ("mutant", mfiles, step)]
    with ThreadPoolExecutor(3) as ex:
        res = list(ex.map(lambda j: _run(f"{label}-{j[0]}", j[1], f"{mc}.tla", j[2], timeout), jobs))
    out = {"tool": "apalache-mc 0.58", "Init=>IndInv": res[0], "IndInv/\\Step=>IndInv'": res[1], f"mutant[{name}]": res[2]}
    if res[0] != "holds" or res[1] != "holds":
        raise core.MachineryError(f"{label}: the inductive invariant of {module} is not established: {out}")
    if res[2] != "violated":
        raise core.MachineryError(f"{label}: the corrupted specification is not rejected by the inductive check ({res[2]}): vacuous")
    return out
