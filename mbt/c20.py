"""C20 - grid derivative operators and the ADMT operator.  Spec: spec/GridOps.tla (one TLC state per case).

(R) for every case TLC enumerates, the real generate_derivative_operators / calculate_admt are run on the grid and
    the operator row of the cell applied to the polynomial field is compared with the exact value from the spec
    (derivatives: integers; ADMT: exact rational num/den times sqrt(dx dy)).
"""
import json
import math
from fractions import Fraction

from . import core

_OPS = {}


UNIT_EXPS = (0, -3, 3)        # GridOps.tla: UnitExps


def grid(g, unit=1.0, numbering=None):
    """voxel vertices and index maps for the grid; the voxel list is ordered as the spec's numbering says (default: column by
    column, top to bottom); the maps use the documented convention (column ix, row jy counted from the top)."""
    import numpy as np
    key = json.dumps([g, unit, sorted(map(tuple, numbering)) if numbering else None], sort_keys=True)
    if key in _OPS:
        return _OPS[key]
    from cherab.tools.inversions.admt_utils import generate_derivative_operators
    nx, ny, dx, dy, x0, y0 = g["nx"], g["ny"], g["dx"], g["dy"], g["x0"], g["y0"]
    verts, m12, m21, centres = [], {}, {}, []
    if numbering is None:
        numbering = [(ix, ny - 1 - jy, ix * ny + jy) for ix in range(nx) for jy in range(ny)]
    for ix, iy, k in sorted(map(tuple, numbering), key=lambda t: t[2]):
        if k != len(verts):
            raise core.MachineryError("numbering is not a bijection onto 0..n-1")
        jy = ny - 1 - iy                      # the maps count rows from the top, the spec's iy counts upwards
        cx, cy = x0 + ix * dx, y0 + iy * dy
        verts.append([[cx - dx / 2, cy + dy / 2], [cx + dx / 2, cy + dy / 2], [cx + dx / 2, cy - dy / 2], [cx - dx / 2, cy - dy / 2]])
        m12[k] = (ix, jy)
        m21[(ix, jy)] = k
        centres.append((cx, cy, ix, iy))
    ops = generate_derivative_operators(np.array(verts, float) * unit, m12, m21)
    index = {(ix, iy): i for i, (_, _, ix, iy) in enumerate(centres)}
    _OPS[key] = (ops, centres, index)
    if len(_OPS) > 200:
        _OPS.clear()
    return ops, centres, index


def poly(p, x, y):
    return p[0] + p[1] * x + p[2] * y + p[3] * x * x + p[4] * x * y + p[5] * y * y


def replay(rec, ctx):
    import numpy as np
    c = rec["case"]
    g = c["g"]
    ops, centres, index = grid(g, 1.0, rec.get("numbering"))
    i = index[(c["ix"], c["iy"])]
    order = c.get("order", "columns_down")
    f = np.array([poly(c["p"], x, y) for x, y, _, _ in centres], float)
    viol = []
    if c["kind"] == "deriv":
        # the caller's operators must not have been modified by anything
        got = float(ops[c["op"]][i] @ f)
        want = float(rec["expect"])
        if abs(got - want) > 1e-9 * max(1.0, abs(want)):
            deg = "constant" if not any(c["p"][1:]) else ("linear" if not any(c["p"][3:]) else ("bilinear" if not (c["p"][3] or c["p"][5]) else "quadratic"))
            viol.append({"sig": f"{c['op']}:{rec['class']}-cell:{deg}-field-not-exact" + ("" if order == "columns_down" else f"@voxels-listed-{order}"),
                         "detail": f"grid {g}, cell ({c['ix']},{c['iy']}) at ({rec['x']},{rec['y']}), field {c['p']}: operator gives {got!r}, exact {want!r}"})
            return viol
        deg_u = 1 if c["op"] in ("Dx", "Dy") else 2
        for e in UNIT_EXPS[1:]:
            u = 10.0 ** e
            ops_u, _, _ = grid(g, u, rec.get("numbering"))
            got_u = float(ops_u[c["op"]][i] @ f)
            want_u = want / u ** deg_u
            if abs(got_u - want_u) > 1e-9 * max(1.0 / u ** deg_u, abs(want_u)):
                viol.append({"sig": f"{c['op']}:not-homogeneous-in-the-length-unit:1e{e}", "detail": f"grid {g} in units of 1e{e}: {got_u!r} vs {want_u!r}"})
                break
        return viol
    from cherab.tools.inversions.admt_utils import calculate_admt
    psi = np.array([poly(c["psi"], x, y) for x, y, _, _ in centres], float)
    radii = np.array([x for x, _, _, _ in centres], float)
    before = {k: v.copy() for k, v in ops.items()}
    admt = calculate_admt(radii, ops, psi, float(g["dx"]), float(g["dy"]), anisotropy=c["a"])
    for k in before:
        if not np.array_equal(before[k], ops[k]):
            viol.append({"sig": "calculate_admt:modifies-the-derivative-operators-passed-in", "detail": f"operator {k} changed"})
            ops[k][...] = before[k]
    row = admt[i]
    if not np.all(np.isfinite(row)):
        viol.append({"sig": "admt:not-finite", "detail": f"cell {i}"})
        return viol
    got = float(row @ f)
    want = float(Fraction(rec["num"], rec["den"])) * math.sqrt(g["dx"] * g["dy"])
    curved = any(c["psi"][3:])
    if abs(got - want) > 1e-9 * max(1.0, abs(want)):
        viol.append({"sig": f"admt:anisotropy-{'1' if c['a'] == 1 else 'gt1'}:{'curved' if curved else 'linear'}-flux-map:differs-from-div-D-grad",
                     "detail": f"grid {g}, cell ({c['ix']},{c['iy']}), psi {c['psi']}, f {c['p']}, anisotropy {c['a']}: operator gives {got!r}, exact {rec['num']}/{rec['den']} = {want!r}"})
    # the flux map (integers at these cell centres) handed over as an integer array, the radii likewise: same operator
    psi_i = np.array([int(round(q)) for q in psi], dtype=np.int64)
    if np.array_equal(psi_i, psi):
        row_i = calculate_admt(radii, ops, psi_i, float(g["dx"]), float(g["dy"]), anisotropy=c["a"])[i]
        if not np.all(np.isfinite(row_i)) or abs(float(row_i @ f) - got) > 1e-9 * max(1.0, abs(got)):
            viol.append({"sig": "admt:depends-on-the-dtype-of-the-flux-map", "detail": f"grid {g}, cell ({c['ix']},{c['iy']}), psi {c['psi']} as int64: {float(row_i @ f)!r} vs {got!r}"})
    psi_s = np.repeat(psi, 2)[::2]          # the same numbers as a strided (non-contiguous) view
    row_s2 = calculate_admt(np.repeat(radii, 2)[::2], ops, psi_s, float(g["dx"]), float(g["dy"]), anisotropy=c["a"])[i]
    if not np.all(np.isfinite(row_s2)) or abs(float(row_s2 @ f) - got) > 1e-9 * max(1.0, abs(got)):
        viol.append({"sig": "admt:depends-on-the-memory-layout-of-its-inputs", "detail": f"grid {g}, cell ({c['ix']},{c['iy']}): {float(row_s2 @ f)!r} vs {got!r}"})
    for e in (-8, 8):               # GridOps.tla: FluxScaleExps
        row_s = calculate_admt(radii, ops, psi * 10.0 ** e, float(g["dx"]), float(g["dy"]), anisotropy=c["a"])[i]
        if not np.all(np.isfinite(row_s)) or abs(float(row_s @ f) - got) > 1e-8 * max(1.0, abs(got)):
            viol.append({"sig": f"admt:depends-on-the-magnitude-of-the-flux-map:1e{e}", "detail": f"grid {g}, cell ({c['ix']},{c['iy']}), psi {c['psi']} x 1e{e}: {float(row_s @ f)!r} vs {got!r}"})
            break
    const = float(row @ np.ones(len(f)))
    if abs(const) > 1e-9 * max(1.0, float(np.abs(row).sum())):
        viol.append({"sig": "admt:does-not-annihilate-constants", "detail": f"row sum {const!r}"})
    return viol


CFG = """SPECIFICATION Spec
CONSTANTS
  Deep = {deep}
INVARIANT LaplacianLimit
INVARIANT AnnihilatesConstants
INVARIANT NumberingIsBijective
INVARIANT EmitCase
"""


def run(v):
    res = core.run_tlc("GridOps", CFG.format(deep="TRUE" if v.tier == "thorough" else "FALSE"), workers=1, seed=v.seed, timeout=3000)
    core.tlc_must_pass(res, "GridOps")
    v.add_tlc(res, "GridOps")
    cases = [r for r in res.records if "case" in r]
    nd = sum(1 for r in cases if r["case"]["kind"] == "deriv")
    na = len(cases) - nd
    if nd < 2000 or na < 500:
        raise core.MachineryError(f"vacuity: {nd} derivative cases, {na} ADMT cases")
    # same grid -> same worker chunk where possible
    cases.sort(key=lambda r: json.dumps(r["case"]["g"], sort_keys=True))
    out = core.fan_out("mbt.c20", "replay", cases, None, chunk=150)
    for r, vs in zip(cases, out):
        for x in vs:
            v.violation(x["sig"], x["detail"], r)
    v.add_cases(len(cases), keys=[json.dumps(r["case"], sort_keys=True) for r in cases])
    v.sample(next(r for r in cases if r["case"]["kind"] == "deriv"))
    v.sample(next(r for r in cases if r["case"]["kind"] == "admt" and r["case"]["a"] == 10 and any(r["case"]["psi"][3:])))
    v.notes["derivative_cases"] = nd
    v.notes["admt_cases"] = na
    v.assumptions += ["integer polynomial fields and flux maps on integer cell centres: all derivatives exact, ADMT compared at interior cells only",
                      "consistency for non-polynomial flux maps (truncation order) is not decided"]
    return v.finish(rule="one case = one (grid, operator, field, cell) or (grid, flux map, field, anisotropy, interior cell) row enumerated by TLC, evaluated on the real operators; distinct = distinct rows")


def selftest():
    rec = {"case": {"kind": "deriv", "g": {"nx": 3, "ny": 3, "dx": 1, "dy": 1, "x0": 1, "y0": -2}, "op": "Dx", "p": [1, 2, 0, 0, 0, 0], "ix": 1, "iy": 1},
           "x": 2, "y": -1, "class": "interior", "expect": 2}
    good = replay(rec, None)
    bad = replay(dict(rec, expect=3), None)
    ok = not good and bool(bad)
    print("C20 selftest:", "ok" if ok else "FAILED", good[:1], bad[:1])
    return 0 if ok else 2
