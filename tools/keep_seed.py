#!/usr/bin/env python3
"""keep_seed.py <name> <property> <detected-by: yes|no|partial> "<needs>" "<what I ran / result>" : move a confirmed seeded change to seeded/<name>/ with meta.json"""
import json, shutil, sys, os
name, prop, detected, needs, ran = sys.argv[1:6]
src = f"/verif/seeded/_incoming/{name}"; dst = f"/verif/seeded/{name}"
os.makedirs(dst, exist_ok=True)
for f in os.listdir(src):
    shutil.copy(os.path.join(src, f), os.path.join(dst, f))
json.dump({"id": name, "breaks_property": prop, "needs_to_manifest": needs, "confirmed": ran, "detected_by_check": detected},
          open(os.path.join(dst, "meta.json"), "w"), indent=1)
shutil.rmtree(src)
print("kept", dst)
