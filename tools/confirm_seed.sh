#!/bin/sh
# confirm_seed.sh <name> : confirm a seeded change from seeded/_incoming/<name> in a fresh scratch worktree:
# demo exits 0 without the patch, 1 with it, and the repository test-suite still passes with it.
n="$1"; src=/verif/seeded/_incoming/$n
export OMP_NUM_THREADS=1 OPENBLAS_NUM_THREADS=1 MKL_NUM_THREADS=1
wt=$(/verif/bin/mkwt confirm_$n) || exit 2
cd "$wt" || exit 2
mkdir -p OUT && cp "$src"/demo.py OUT/ 2>/dev/null; cp "$src"/* OUT/ 2>/dev/null
./py OUT/demo.py > /tmp/wt/confirm_$n.clean.log 2>&1; clean=$?
git apply "$src/patch.diff" || { echo "patch does not apply on current HEAD"; /verif/bin/rmwt confirm_$n; exit 2; }
/venv/bin/python setup.py build_ext -j16 --inplace > /tmp/wt/confirm_$n.build.log 2>&1 || { echo "build failed"; tail -5 /tmp/wt/confirm_$n.build.log; /verif/bin/rmwt confirm_$n; exit 2; }
./py OUT/demo.py > /tmp/wt/confirm_$n.patched.log 2>&1; patched=$?
./py -m pytest -q -p no:cacheprovider --timeout=900 -n 8 > /tmp/wt/confirm_$n.pytest.log 2>&1; pt=$?
summary=$(tail -1 /tmp/wt/confirm_$n.pytest.log)
echo "demo clean exit=$clean patched exit=$patched pytest exit=$pt: $summary"
tail -3 /tmp/wt/confirm_$n.patched.log
cd /; /verif/bin/rmwt confirm_$n
[ "$clean" = 0 ] && [ "$patched" != 0 ] && [ "$pt" = 0 ]
