#!/bin/sh
# try_seed.sh <patch.diff> <Cxx> [tier]: apply a seeded change to /repo, run the check, undo.
p="$1"; id="$2"; tier="${3:-quick}"
cd /repo || exit 2
git apply --check "$p" || { echo "patch does not apply"; exit 2; }
git apply "$p"
# the evidence file must describe the unchanged tree: keep the current one aside and put it back afterwards
ev=/verif/evidence/$id.json; keep=$(mktemp); [ -f "$ev" ] && cp "$ev" "$keep"
cd /verif && bin/check "$id" "$tier" > /verif/out/try_seed.log 2>&1; rc=$?
grep -E "^VIOLATION|signature|^\[C|MACH|KNOWN" /verif/out/try_seed.log | head -${LINES_MAX:-14}
cd /repo && git checkout -- . && /venv/bin/python setup.py build_ext -j16 --inplace >/dev/null 2>&1
[ -s "$keep" ] && cp "$keep" "$ev"; rm -f "$keep"
echo "exit=$rc"
