#!/usr/bin/env python3
"""Regenerate /verif/MANIFEST.json from the table below (one entry per claimed property)."""
import json, subprocess

CLAIMED = {
 "C06": dict(
    text="Repository.tla models the repository as key -> last-written value id over the code's file layout; TLC explores every "
         "write/update/reject edge of depth <= 2 per family (and every cross-family edge of depth 1, pair updates, partially applied "
         "rejected updates) and each edge is replayed through the real add_*/update_*/get_* functions with all keys read back bit for bit "
         "and both directory trees listed; random long call sequences recorded from the real code are validated by TLC against "
         "Trace_Repository.tla. The install_adf11* / install_adf21 / install_adf22* front-ends are actions too (Install: the keys one call writes), interleaved with add / update; "
         "between the calls the caller reads every key back in every equivalent spelling (probe), so a read cache shows. Rejected writes: by charge, shape, species type, and every field of the data missing / None / text (Fields table per family; nothing may change, in particular no file may be truncated). WriteSame: the caller reuses the data object of the preceding write for another key. Second spelling of a key also = the charge as a numpy integer. The ADF15 / ADF12 install front-ends run on AdfFormat.tla's documents (readable from the repository given, nothing elsewhere). Exhaustive within the small key universe, sampled beyond.",
    note="Trusts: json/numpy float round trip is what the library uses; key universe of 2-3 species x 2 charges x 2 transitions x 2 metastables; "
         "ADF11-style tables passed under 'rates'. Concurrent writers and crash atomicity are outside the property.",
    technique="TLA+ state machine + TLC exhaustive edges replayed into the code; TLC trace validation of recorded call sequences",
    design="4.6"),
 "C15": dict(
    text="ObserverGroup.tla is a generic state machine of a group (members, per-member attribute values for the attribute under test and a second one, "
         "names incl. never-named members, direct renames, every valid index / slice, parents, observe counts) with add / wrong-type add / observers= / scalar, element-wise and wrong-length assignment / names= / direct member "
         "change / observe. TLC explores every edge to depth 2 (3 in thorough) and the edges are replayed on the real classes once per "
         "(group class, broadcast attribute) pair found by introspection (111 pairs today, + BolometerCamera membership), comparing the whole projected state.",
    note="Trusts the harness' valuation table (two valid values per attribute) and raysect's observer setters; attributes without a valuation are listed in the evidence, not checked.",
    technique="TLA+ generic group state machine, TLC exhaustive edges replayed per (class, attribute) pair",
    design="4.15"),
 "C16": dict(
    text="Instrument.tla models Spectrometer / CzernyTurnerSpectrometer / Polychromator as parameters plus lazily (or eagerly) computed settings with their "
         "dependency table; TLC explores all setter / invalid-setter / getter interleavings to depth 3-4 (4-6 thorough), checks NoStale and the range / bin-width "
         "inequalities on exact integer settings, and every edge is replayed on the real class and compared with an instrument constructed directly from the final "
         "parameters and with TLC's exact min/max/bins. Calibrate.tla computes the exact per-pixel integrals of raysect's piecewise-linear spectrum for 81 "
         "layout x source-grid cases; Spectrometer.calibrate is compared with them (rtol 1e-12) and is a getter action of the state machine (calibrate, change, calibrate). Ghost variable 'used' makes read-then-change histories distinct states; the getter 'all' reads every public read-out; an untouched second instrument with other parameters must not change while the first is driven; calibration arrays as lists or ndarrays, filters as trapezoids or as tabulated curves listed downwards.",
    note="Czerny-Turner optics formula is opaque (mutated-vs-fresh only); exact settings use integer layouts and power-of-two min_bins; raysect Spectrum.integrate semantics trusted as the definition of the integral.",
    technique="TLA+ lazy-settings state machine + exact rational calibration table, TLC exhaustive edges replayed into the code",
    design="4.16"),
 "C19": dict(
    text="Registry.tla states the property as first-order formulas over the registry recorded from the real module (all 374 exported Element/Isotope objects, "
         "every identifier in 5 letter-case spellings looked up through lookup_element/lookup_isotope, the complete ==, != and hash relations, dictionary-key use, "
         "Line twins); TLC evaluates them with one state per object against a hand-typed periodic table. Exhaustive: the space is finite and fully enumerated.",
    note="Trusts the dump code in mbt/c19.py (self-test corrupts three recorded fields and requires three different invariants to fail); atomic weights only range-checked.",
    technique="TLC evaluation of first-order invariants over the recorded registry (trace = full dump of the real module)",
    design="4.19"),
 "C07": dict(
    text="Provider.tla is the provider's decision table: outcome as a function of accessor (13 rate accessors), species kind, stored/missing data, wavelength "
         "availability, the three flags, argument class (every grid point, inside, non-positive per axis, below/above per axis), the set of single-point axes of the stored table and tables with a sharp fall along one axis (cubic interpolants dip below zero there: rates stay non-negative), and two-species accessors asked with one element and one isotope; tables whose first / last nodes are not powers of ten (lattice = physical: the table's own edge nodes are grid points like any other); TLC enumerates all 12 832 rows, "
         "checks totality and uniformity invariants, and every row is executed on a real OpenADAS object over a repository populated through the C06-checked API "
         "(exception classes exact, grid values = stored table x CODATA unit conversion to 1e-9, exact zeros, finite non-negative, null rates).",
    note="3-point axes (the 2-D cubic interpolators reject single-point axes; single-point only for beam classes); interpolation quality between nodes not specified beyond finite/non-negative; "
         "photon coefficient with missing wavelength while null rates are requested is recorded, not asserted.",
    technique="TLA+ decision table enumerated by TLC, one implementation test per row",
    design="4.7"),
 "C01": dict(
    text="Scene.tla models one plasma + beam (attenuator, beam models) + laser scene as 38 configuration parameters, 7 pieces of cached derived state with the "
         "projection each is computed from, and the observer wiring (which notifiers a setter fires, which callbacks clear / rebuild what, cascades). TLC checks NoStale on the wiring "
         "(every dependent cache is reached) over all histories of mutators and observations to depth 2 (3 sampled in thorough) from a fresh and a fully observed scene; "
         "every explored edge is replayed on a real raysect scene with mock atomic data and each observation (6 sight lines, beam density/direction, plasma scalars, laser segments) "
         "is compared with a scene built from scratch in the final configuration (same code both sides, rtol 1e-11). A sensitivity audit guarantees every parameter is observable. "
         "In the other direction, random long histories are recorded from the real scene together with the callbacks each call notified and TLC validates them against Scene.tla "
         "through Trace_Scene.tla (required callbacks of the wiring table must have been notified). Mutators include the manager front-ends (set / clear+add / add) and re-pointing beam and laser at their plasma. "
         "In thorough, 19 corruptions of the specification's own wiring table must be rejected by NoStale (spec-mutation audit), and Apalache discharges the inductive invariant "
         "(NoStale /\\ EagerFilled inductive over every public call from any configuration), i.e. the model-level property for histories of any length. Scene_SOS.tla enumerates every history of the shape "
         "re-binding change; observe everything; any change. Notify.tla models the notifier registry itself (add / remove / owner dies / notify with weak references) and is replayed on a real Notifier with dying objects.",
    note="Two concrete values per parameter; one object of each kind; constant mock rates; in-place edits of shared objects and user-defined models are out of scope; histories longer than the depth bound only sampled.",
    technique="TLA+ wiring/caching state machine model-checked by TLC (bounded) and Apalache (inductive, unbounded); explored histories replayed on the real scene vs fresh build; TLC trace validation of recorded histories with notified callbacks",
    design="4.1"),
 "C18": dict(
    text="LaserObjects.tla models the four laser profiles and two laser spectra as parameters + eagerly recomputed derived state (energy-density function, polarisation function, "
         "binned spectrum) with valid and invalid setters and pure reads, and specifies the admissible exact tilings of the laser length into segments over rationals. TLC explores all "
         "histories to depth 3 (4 thorough); each edge is replayed on the real object (profiles attached to a real Laser node) and compared with a freshly constructed one; on the "
         "final object the segments are checked against the spec's tilings and the documented identities (cross-section integral = Ep/(c tau), trivariate volume integral = Ep, "
         "per-bin power = integral of the PSD, reported range) are evaluated numerically; energy densities are also compared pointwise with the closed forms, constructor defaults are one of the values (setting a parameter to its default is a change like any other). LaserTiling.tla: a dense (length, radius) table (up to 80 x 40 pairs) on every profile through the constructor and both setter orders: the segments tile [0, L] exactly once. An untouched second object must not change.",
    note="Integrals by tensor trapezoid quadrature (1e-8 / 1e-7); two values per parameter; the number of segments may be floor(L/2r) or one less (floating-point floor), both tile exactly.",
    technique="TLA+ setter state machine + rational tiling, TLC exhaustive edges replayed vs fresh object; numeric identities on final objects",
    design="4.18"),
 "C13": dict(
    text="FuncWrap.tla states, for every wrapper class (iso-mappers, swizzles incl. all 27 Swizzle3D shapes, slices, axisymmetric and cylindrical mappers with rational radii and "
         "angles from Pythagorean points, input/output clamps, scalar and vector periodic transforms, polygon mask by exact crossing number on lattice polygons) the argument tuple the "
         "wrapped function must receive and the post-processing, plus sampler grids; TLC enumerates ~720 cases and checks range/congruence invariants; every case is executed with "
         "recording callables and compared; vector wrappers also after an earlier evaluation elsewhere with a wrapped function that keeps the vector it returns (purity). IEEE edge tokens (tiny negative, -0.0, 1e300, exact multiples, on-axis / underflowing radii) are checked by predicate. Eleven polygons for the mask (tall, wide, at negative coordinates, around the origin, concave); every absent / lower / upper / both combination of clamp bounds per axis.",
    note="Rational-lattice arguments only (periods are exact binary fractions); general IEEE-754 behaviour is covered only by the named tokens; polygon points on an edge accepted either way.",
    technique="TLA+ case table with exact integer arithmetic enumerated by TLC, one recording-callable test per case",
    design="4.13"),
 "C14": dict(
    text="Caching.tla models the lazy per-cell cache protocol of Caching1D/2D/3D (sampled nodes, calculated cells, which stencil nodes an evaluation asks the wrapped function for and in which order) "
         "and, for 1-D, the exact cubic-Hermite interpolant over integers (x128) for an integer-coefficient polynomial family; TLC checks each node is requested at most once, the value is a function of the "
         "point only, node exactness, exact reproduction of linear functions and the h^2 error bound on cubics, over all evaluation orders to depth 2-3 (3-4 thorough). Every order is replayed on the real "
         "classes with a recording polynomial in two configurations (no_boundary_error/function_boundaries): asked nodes and order, value vs exact interpolant, value vs a fresh instance, value vs the unbounded variant. LatticeCases: the number of cells for extent x requested resolution (never fewer than one) on every axis of every class. Per-axis spacings (1, 0.5, 0.25) and lattices displaced from the origin / of 5 mm resolution (Origins): the protocol and history independence hold there; "
         "The sampling nodes are asserted as sets (order and repeated requests are observations). Also uneven cell counts per axis (N, N+1, N+3) and function_boundaries that are wide / exceeded by the function / degenerate (min = max). Caching3D's loss of accuracy away from the origin is the recorded known finding (three listed signatures).",
    note="Areas [x0, x0 + N h]; agreement with the exact interpolant limited to 2e-5 by the code's 1e-7 node shift; the h^2 bound for arbitrary C2 functions is not decided (polynomial family only).",
    technique="TLA+ cache-protocol state machine + exact integer Hermite interpolant, TLC-explored evaluation orders replayed on the code",
    design="4.14"),
 "C20": dict(
    text="GridOps.tla enumerates (grid size 2..4 x 2..4, voxel width/height, operator, integer polynomial field, cell) rows with the exact derivative the statement demands "
         "(constants, linear fields for Dx/Dy in every cell, bilinear for Dxy in every cell, quadratics for Dxx/Dyy in interior cells) and (flux map, field, anisotropy 1/2/10, interior cell) rows with "
         "div(D grad f) in cylindrical geometry as an exact integer fraction; TLC checks the Laplacian limit and annihilation of constants on the formula and ~6 300 rows are evaluated on the real "
         "generate_derivative_operators / calculate_admt (1e-9), which must also leave the operators passed in unchanged. Unit laws: the length unit changed by 1e-3 / 1e3 scales first / second derivative operators by the exact power; psi multiplied by 1e-8 / 1e8 leaves the ADMT operator unchanged. The voxel list is handed over in four different orders (Orders / Numbering): the operators act on cells, not on list positions; ADMT rows on square and non-square voxels, the flux map also as an integer array.",
    note="Polynomial (quadratic) flux maps and fields on integer cell centres only: the coefficient formulas are verified, not the truncation order for non-polynomial flux maps.",
    technique="TLA+ exact integer case table enumerated by TLC, one operator-row test per case",
    design="4.20"),
 "C17": dict(
    text="Voxel.tla computes area, centroid and volume of lattice polygons (triangle, rectangle, concave hexagons, pentagon, dart, polygon touching the axis) with exact shoelace sums for every "
         "starting vertex and both orientations and checks their invariance over the dihedral orbit; every orbit element is built as a real AxisymmetricVoxel (csg and mesh) and compared with the "
         "exact rationals (1e-12); ToroidalVoxelGrid.total_volume vs the sum; the emissivity estimator must be exact for constants and, with raysect's RNG seeded, within 6 standard errors of the "
         "area-mean (value at the exact centroid) for three linear functions per polygon. Polygons: 14 hand-picked ones plus a parameterised family of 88 grid-cell-like quadrilaterals (trapezoids along r and along z). VoxelGrid.tla: set_active / parent / unparent histories keep totals and membership, and entry i of the grid-level emissivity estimate belongs to voxel i. The same polygons in units of 1e-4 m and 1e3 m (area ~ u^2, volume ~ u^3); vertices as lists, Point2D lists or a caller-owned ndarray that is re-used afterwards.",
    note="Lattice polygons only; unbiasedness for arbitrary emissivity functions is implied by the linear/constant tests, not decided; statistical part is seeded and deterministic per VERIF_SEED.",
    technique="TLA+ exact shoelace orbit table enumerated by TLC, one voxel test per orbit element; seeded estimator check",
    design="4.17"),
 "C11": dict(
    text="Sart.tla is the SART iteration as a state machine over exact rationals (update with relaxation, row/column sums, clipping, penalty (L x)_l with a symmetric chain and a non-symmetric row-normalised regularisation matrix, convergence measure, "
         "stopping rule); TLC explores every instance over small integer matrices (all 2x2 over {0,1,2}, 2x3/3x2 over {0,1} incl. zero rows/columns), measurements, three initial guesses, "
         "two relaxations, with/without penalty, checks non-negativity, the fixed-point and unseen-voxel invariants, and every terminal state (iterate, convergence list, iteration count) is "
         "compared with invert_sart / invert_constrained_sart (1e-10). (W and b also handed over as integer arrays.) LeastSquares.tla computes the exact minimisers of the Tikhonov-regularised problem with two unknowns by Cramer's rule "
         "and active-set enumeration, checks normal equations / KKT uniqueness, and is compared with invert_regularised_lstsq / _nnls (solution and reported residual, default and caller-supplied Tikhonov matrix, also as the second call of an alpha scan reusing that matrix); invert_svd against the exact minimum-norm solution. "
         "Scale laws: W and b multiplied by 1e6 / 1e-12 (SART) and 1e4 / 1e-20 (least squares) must give the exactly scaled iterate / minimiser.",
    note="Tiny integer instances only (32-bit exact rationals limit SART to 2 iterations, 3 for 3x1); large / ill-conditioned systems and the OpenCL variant are not exercised; default e^-1 guess not used.",
    technique="TLA+ SART state machine over exact rationals + exact KKT minimisers, TLC-enumerated instances compared with the solvers",
    design="4.11"),
 "C09": dict(
    text="IonBalance.tla gives, for an element of atomic number Z with integer ionisation / recombination / thermal-CX rate patterns, donor ratio n_D/n_e in {0, 1/2, 2} and donor charge state, "
         "the exact rational steady-state populations and checks unit-simplex, neighbour balance and mean-charge invariants (Z <= 8 exact; Z up to 18 rates only). Every instance is run on a mock "
         "AtomicData through fractional_abundance (scalar, ndarray, Function1D, Function2D + free variables), from_elementdensity, match_plasma_neutrality (charge closure, non-negativity) and the "
         "1-D interpolator front-ends; results are compared with the exact fractions / balance equations (1e-7) and with each other. Element densities of 1/40 and 40 times the electron density (the density is a scale only). IonSession.tla generates sequences of entry-point calls "
         "(entry x element x representation x donor, depth 2-3) that share one set of caller-owned profile arrays with T_e/n_e-dependent rates: after every call the arrays must be untouched and the result equal to the same call on fresh scalar inputs; providers whose served tables change between calls (Update; call - update - call). "
         "Power-of-ten rate patterns spanning 2, 6 and 20 orders of magnitude with exact populations 10^k: spans 2 and 6 agree to 1e-8, span 20 is the recorded known finding (lsq_linear breakdown / non-termination; six listed signatures).",
    note="Rates at physical magnitude (k x 1e-14 m^3/s, n_e = 3e19); the wide-span instances are the only ones that leave it. A balance evaluation that does not return within 20 s is reported as non-termination.",
    technique="TLA+ exact rational balance table enumerated by TLC, every entry point x representation compared per instance; TLA+ call-sequence model for purity / shared inputs",
    design="4.9"),
 "C10": dict(
    text="RayTransfer.tla is the midpoint marching loop as a state machine (one TLA+ step per sample) on integer lattices: Cartesian cells by exact floors, cylindrical cells by squared radii and "
         "sign/magnitude sector tests, periodic toroidal index, three voxel maps (identity, mask with consecutive renumbering, merged cells with holes), samples on a cell face counted as ambiguous. "
         "TLC explores every lattice segment x sample count, checks sample accounting, merged = sum of cells, unmapped cells contribute nothing and, for Cartesian cells, |count - n x exact chord fraction| <= 2 "
         "with exact slab intersection over rationals. Each behaviour is replayed (object displaced and rotated in the world; every fifth also in millimetres) through the real Cartesian/CylindricalRayTransferIntegrator.integrate (six cylindrical grid shapes incl. single Z layer, "
         "axisymmetric, and odd numbers of periods per turn with 30-degree sector tests) and the entries compared; end-to-end Ray.trace through RayTransferBox / RayTransferCylinder checks the chord total and the angular period. "
         "RTPipeline.tla models the ray-transfer pipelines' initialise / render / finalise protocol over repeated observations (matrix = mean of this observation's samples), replayed on real pipeline objects; "
         "RTObject.tla models the voxel-map / mask setters of the ray-transfer objects (bins, inverted map, integration follows the current map).",
    note="Lattice end points inside small fixed grids; exact chord comparison for Cartesian identity map only; non-lattice rays only through the two end-to-end traces.",
    technique="TLA+ per-sample marching state machine with exact integer geometry, TLC behaviours replayed through the integrators; TLA+ pipeline-protocol and voxel-map state machines replayed on the real objects",
    design="4.10"),
 "C03": dict(
    text="Emission.tla states the per-point composition rules of ExcitationLine, RecombinationLine, ThermalCXLine, TotalRadiatedPower and Bremsstrahlung over a 5-species universe "
         "(neutral, bare, partially stripped; present / absent / zero / negative densities, zero temperatures, n_e and T_e incl. zero and negative): required species, eligible donors, which density multiplies "
         "which integer coefficient, zero conditions; TLC checks zero-when-non-positive and non-negativity over ~61 000 configurations and each is executed on a real Plasma with a mock provider carrying the "
         "spec's rate table: wavelength-integrated emission vs total/4pi (1e-9), uniform spread for radiated power, bin averages vs Hutchinson 5.3.40 with CODATA constants, RuntimeError for missing species, "
         "and the provider accessor calls must be exactly those the rule prescribes. A 'prior' dimension lets an already evaluated model meet the configuration afterwards: re-bound from another provider / another plasma, evaluated before at another point of the same non-uniform plasma, or bound to a plasma object whose distributions and composition are then replaced in place (the rules do not depend on it). Densities also at 1e-13 and 1e9 times the nominal magnitude (the totals are homogeneous of degree 2), species temperatures pairwise distinct, Gaunt factor per charge, and mock coefficients that answer with the spec's numbers only at the documented arguments (an argument mix-up changes the emission itself; the recorded calls are observations). Further priors: another wavelength integrator assigned after use (bremsstrahlung), profiles localised in a small box around the point under test.",
    note="One point, constant distributions, Gaussian line shape in a window covering the line; negative donor/hydrogen densities (statement clauses disagree) observed only; real Gaunt tables not used.",
    technique="TLA+ selection/composition rule table enumerated by TLC, one model evaluation per configuration + accessor-call trace check",
    design="4.3"),
 "C05": dict(
    text="Emission.tla (beam part) gives the beam CX coefficient as the exact population-weighted mean (fractions over integer coefficients, two metastables, populations from the Z-weighted species sum) and "
         "the beam-emission charged sum; TLC checks min q <= q <= max q and vanishing for zero beam density over all ion compositions; each configuration is executed through BeamCXLine / "
         "BeamEmissionLine.emission on a real Beam with a constant-density attenuator stub, totals compared (1e-9) and every coefficient's evaluation arguments (E_int, T, total ion density, Z_eff, |B|; "
         "sum Z^2 n / Z_i) compared with the spec's sums; flowing species (per-species bulk velocities, beam frame rotated against the plasma frame) give each coefficient its own exact interaction energy. "
         "Where the spec total is zero (zero beam density, receiver density or receiver temperature - also with no ion at all) a temperature-independent user line shape must be handed nothing. The same priors as C03 (incl. a model attached through beam.models, evaluated, the beam geometry changed, evaluated, the plasma replaced in place). Composition.tla models the plasma composition manager (set / add / clear, order, identity, notifications) with Z-effective and ion density after every step, replayed on a real Plasma.",
    note="Constant mock coefficients; one point; velocities from a table of integer-length relative velocities.",
    technique="TLA+ exact rational mean / charged sum enumerated by TLC, one emission call per configuration + argument trace check",
    design="4.5"),
 "C02": dict(
    text="LineShape.tla gives, for each of the seven line-shape models, the components a line is split into with their exact share of the radiance (fractions in cos^2 of the field angle from integer "
         "vectors, multiplet / Zeeman-structure / MSE ratios) and their position label, over polarisation x 4 angle classes x field on/off x temperature sign x broadening x 5 window classes; TLC checks "
         "shares sum to one, the pi and sigma shares, pi + sigma = 1 and that a line without width has no components (2 280 configurations). Each is executed on the real object: Gaussian-kernel models "
         "bin by bin against sum R w BinAvg_erf(position, sigma) with CODATA Doppler/Zeeman/Stark positions (1e-9), the Stark pseudo-Voigt bin by bin against (1-eta) erf average + eta closed-form modified-Lorentzian average (2F1 primitive, documented width/weight fits; Doppler-dominated and mixed-width regimes), "
         "pi + sigma vs unpolarised bin by bin, no-width adds nothing; windows incl. bins a few line widths wide with the centre on / near a bin boundary; ratio functions (MSE, Zeeman structure) answering only at the documented arguments; plasma profiles localised around the evaluation point. Quadrature.tla models the GaussianQuadrature integrator the Stark model spreads its Lorentzian part with (order range, roots table, "
         "refused values): every edge to depth 2-3 replayed on a real integrator vs a freshly constructed one (bit for bit), polynomials up to degree 2 min_order - 1 exact, Lorentzian bins equal.",
    note="One plasma point and fixed tables; Stark fit coefficients are inputs; bins tens of nm wide are compared to 2e-3 (the adaptive quadrature's own accuracy), resolved windows to 1e-4.",
    technique="TLA+ exact component-share table enumerated by TLC, one add_line evaluation per configuration against closed-form bin averages; TLA+ integrator state machine replayed vs fresh object",
    design="4.2"),
 "C04": dict(
    text="BeamDensity.tla gives, for species mixes (1-3 ion species, stopping rates a_i + c_i n_eq so the composite coefficient depends on the equivalent density of all species), beam shapes "
         "(sigma, divergences as rational tangents, length, clamping) and a lattice of points, the domain class (before source / beyond length / outside clamp / inside) and the exact integers S, "
         "sigma_x^2(z), sigma_y^2(z), the direction as fractions; TLC checks monotonic attenuation, flux conservation without stopping and the streamline identity. The attenuation table's lattice (node count and spacing for steps that do and do not divide the beam length) is part of the table. Each of the 4 608 rows is evaluated "
         "on a real Beam + SingleRayAttenuator in a uniform plasma (value to 1e-9 with CODATA constants; exact zeros; unit direction parallel to the spec's), the mock rates' evaluation arguments are "
         "compared with (E_int, sum Z^2 n / Z_i, T_i), plus a fine on-axis lattice for monotone decay and flux conservation, a beam built and evaluated in a denser region and then moved (displaced, rotated plasma node), and a plasma setting in abruptly between two attenuation nodes (flux never rises).",
    note="Uniform plasma along the beam (attenuation integral exact); non-uniform profiles only through the C01 scenes; points between attenuation nodes compared within the linear-interpolation bound.",
    technique="TLA+ exact integer ingredient table enumerated by TLC, one density/direction evaluation per row + argument trace check",
    design="4.4"),
 "C12": dict(
    text="FluxMap.tla gives, for synthetic Solov'ev-type equilibria psi = s (A (r-R0)^2 + B z^2) of either sign on an integer grid, at every node: normalised flux (clamped), the LCFS decision "
         "(inside polygon AND psi_n <= 1), a linear profile mapped / outside value, the exact gradient and the un-normalised poloidal / normal directions, 6 rational toroidal angles; TLC checks psi_n >= 0, "
         "orthogonality, normal = poloidal x toroidal, B.n = 0, equal lengths, up-down symmetry. 2 352 rows are compared on a real EFITEquilibrium (psi_normalised, inside_lcfs, map2d with function and 2xN "
         "array profiles, map3d, b_field inside/vacuum, poloidal_vector, surface_normal, map_vector2d/3d incl. the magnetic axis and the midplane) and the same identities are evaluated with recorded inputs at "
         "seeded random points of the bundled example and Generomak equilibria. Also: an axis-flux offset (psi_n stays in [0, 1] between nodes), the limiter polygon, 2x2 profile tables, psi in other units (PsiScaleExps: same psi_n, same directions), one mapped vector function with a non-zero outside value at several angles in turn; magnetic axis above the midplane and tilted flux surfaces (cross term), so that nothing is hidden by up-down symmetry; a stretched r axis (gradient-exact nodes only), a non-constant current-flux profile, vectors handed out earlier re-read after later evaluations.",
    note="Exactness only at grid nodes of quadratic psi; between nodes only sign / range / monotone-profile statements; the bundled data files themselves are not checked.",
    technique="TLA+ exact node table enumerated by TLC, one evaluation per row on a real equilibrium; identities with recorded inputs on bundled equilibria",
    design="4.12"),
 "C08": dict(
    text="AdfFormat.tla describes ADF11, ADF12, ADF15, ADF21 and ADF22 files as abstract documents (grid sizes incl. non-multiples of the values per line, block ranges up to 18 charge states, "
         "six ADF11 classes with their charge-state convention, three ADF15 header conventions with EXCIT/RECOM/CHEXC blocks, index order differing from block order, an index entry without block, "
         "element mismatch, ADF12 used counts below the fixed capacities) whose every numeric entry is a distinct function of (block, row, column), and states the documented conventions; TLC enumerates "
         "~2 300 documents, each rendered by an independent writer, parsed, installed into a temporary repository and read back, compared entry by entry (1e-12) incl. rejections and stray files under $HOME. Full-configuration ADF15 levels cycle through all fourteen term letters (S..R without J). Variants: ADF15 index with / without the rule line, ADF11 with / without a trailing comment section; the thorough tier instantiates the larger tables (Deep).",
    note="No real ADAS files offline: ADF11 layout and all value/wrapping layouts follow the published fixed-width formats, but header column positions of ADF12/21/22 and the wording of ADF15 index lines follow what the parser documents; resolved ADF11 not generated.",
    technique="TLA+ abstract document table enumerated by TLC, independent writer -> parser/installer round trip per document",
    design="4.8"),
}

NOT_YET = {}

def main():
    props = [json.loads(l) for l in open('/verif/properties.jsonl')]
    checks, na = [], []
    for p in props:
        pid = p['id']
        if pid in CLAIMED:
            c = CLAIMED[pid]
            checks.append({
                "property_id": pid,
                "quick_cmd": f"bin/check {pid} quick",
                "thorough_cmd": f"bin/check {pid} thorough",
                "evidence_file": f"/verif/evidence/{pid}.json",
                "replay_cmd_template": "bin/check --replay {path}",
                "engine": "tlc+replay",
                "level_claimed": {"category": "model_checking", "text": c["text"], "design_ref": c["design"]},
                "level_note": c["note"],
                "technique": c["technique"],
            })
        else:
            na.append({"property_id": pid, "reason": NOT_YET.get(pid, "check not built yet in this round (planned, see DESIGN.md section 4); not claimed until its specification is bound to the code")})
    commits = subprocess.run(["git", "-C", "/repo", "log", "--format=%h %s", "--grep=^hook:"], capture_output=True, text=True).stdout.strip().splitlines()
    m = {
        "version": 1,
        "setup_cmd": "bin/setup",
        "hooks": {
            "guard": "CHERAB_VERIF",
            "enable": "no source hooks are needed: all observation goes through the public API, mock providers and harness-side wrappers; checks rebuild /repo in place with `setup.py build_ext --inplace`",
            "baseline_off_cmd": "cd /repo && OMP_NUM_THREADS=1 OPENBLAS_NUM_THREADS=1 /venv/bin/python -m pytest -ra -q -p no:cacheprovider --timeout=900 --continue-on-collection-errors",
            "source_commits": [c.split()[0] for c in commits],
            "add_only": True,
        },
        "engines": [{"name": "tlc+replay", "path": "/verif/bin/check", "serves_properties": sorted(CLAIMED),
                     "kind_free_text": "TLC (tla2tools 1.8) model checking of /verif/spec/*.tla; emitted behaviours replayed into the real library by /verif/mbt adapters; recorded traces validated by TLC trace specifications"}],
        "checks": checks,
        "not_applicable": na,
        "notes": "Exit codes: 0 held (KNOWN-FINDING lines allowed), 1 VIOLATION, 2 machinery failure. known_findings.json lists fixed and open findings.",
    }
    json.dump(m, open('/verif/MANIFEST.json', 'w'), indent=1)
    print("claimed:", sorted(CLAIMED), "not claimed:", [x['property_id'] for x in na])

if __name__ == '__main__':
    main()
