#!/bin/sh
# regress_seeds.sh [seed ...]: re-run the quick check of each kept seed's property against the seeded change, in a scratch
# worktree of /repo and a scratch copy of /verif (HEAD), so that /repo and /verif stay usable meanwhile.
# Every kept seed must still be detected (exit 1).  Results: /verif/out/regress.log
# REGRESS_SUFFIX=<x> uses separate scratch directories and /verif/out/regress<x>.log, so that several subsets can run side by side.
set -u
SUF="${REGRESS_SUFFIX:-}"; RW=/tmp/wt/regress$SUF; RV=/tmp/rv$SUF
rm -rf "$RV"; git -C /repo worktree remove --force "$RW" >/dev/null 2>&1; rm -rf "$RW"; git -C /repo worktree prune
/verif/bin/mkwt regress$SUF >/dev/null || exit 2
mkdir -p "$RV"; (cd /verif && git archive HEAD | tar -x -C "$RV") || exit 2
mkdir -p "$RV/out"
log=/verif/out/regress$SUF.log; : > "$log"
seeds="$*"; [ -n "$seeds" ] || seeds=$(ls /verif/seeded | grep -v '^_')
miss=0
for s in $seeds; do
  id=$(echo "$s" | cut -c1-3); p=/verif/seeded/$s/patch.diff
  # a seed that only another property's check can see names that check in its meta.json ("regress_with")
  alt=$(jq -r '.regress_with // empty' /verif/seeded/$s/meta.json 2>/dev/null); [ -n "$alt" ] && id=$alt
  (cd "$RW" && git apply "$p") || { echo "$s patch-does-not-apply" >> "$log"; continue; }
  (cd "$RV" && VERIF_REPO="$RW" PYTHONPATH="$RW" bin/check "$id" quick > "$RV/out/regress_$s.log" 2>&1); rc=$?
  sig=$(grep -m1 "signature" "$RV/out/regress_$s.log" | cut -c1-120)
  echo "$s rc=$rc $sig" >> "$log"
  [ "$rc" = 1 ] || miss=$((miss+1))
  (cd "$RW" && git checkout -- . )
done
echo "done missed=$miss" >> "$log"
git -C /repo worktree remove --force "$RW" >/dev/null 2>&1; rm -rf "$RW" "$RV"; git -C /repo worktree prune
