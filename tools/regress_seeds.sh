#!/bin/sh
# regress_seeds.sh [seed ...]: re-run the quick check of each kept seed's property against the seeded change, in a scratch
# worktree of /repo and a scratch copy of /verif (HEAD), so that /repo and /verif stay usable meanwhile.
# Every kept seed must still be detected (exit 1).  Results: /verif/out/regress.log
set -u
RW=/tmp/wt/regress; RV=/tmp/rv
rm -rf "$RV"; git -C /repo worktree remove --force "$RW" >/dev/null 2>&1; rm -rf "$RW"; git -C /repo worktree prune
/verif/bin/mkwt regress >/dev/null || exit 2
mkdir -p "$RV"; (cd /verif && git archive HEAD | tar -x -C "$RV") || exit 2
mkdir -p "$RV/out"
log=/verif/out/regress.log; : > "$log"
seeds="$*"; [ -n "$seeds" ] || seeds=$(ls /verif/seeded | grep -v '^_')
miss=0
for s in $seeds; do
  id=$(echo "$s" | cut -c1-3); p=/verif/seeded/$s/patch.diff
  (cd "$RW" && git apply "$p") || { echo "$s patch-does-not-apply" >> "$log"; continue; }
  (cd "$RV" && VERIF_REPO="$RW" PYTHONPATH="$RW" bin/check "$id" quick > "$RV/out/regress_$s.log" 2>&1); rc=$?
  sig=$(grep -m1 "signature" "$RV/out/regress_$s.log" | cut -c1-120)
  echo "$s rc=$rc $sig" >> "$log"
  [ "$rc" = 1 ] || miss=$((miss+1))
  (cd "$RW" && git checkout -- . )
done
echo "done missed=$miss" >> "$log"
git -C /repo worktree remove --force "$RW" >/dev/null 2>&1; rm -rf "$RW" "$RV"; git -C /repo worktree prune
