#!/bin/sh
# take_seed.sh <name> [tier]: copy a sub-agent's deliverables from /tmp/wt/<name>/OUT to seeded/_incoming/<name> and try the check
n="$1"; tier="${2:-quick}"; id=$(echo "$n" | cut -c1-3)
mkdir -p /verif/seeded/_incoming/$n
cp /tmp/wt/$n/OUT/patch.diff /tmp/wt/$n/OUT/demo.py /tmp/wt/$n/OUT/notes.md /verif/seeded/_incoming/$n/ || exit 2
/verif/tools/try_seed.sh /verif/seeded/_incoming/$n/patch.diff $id $tier
