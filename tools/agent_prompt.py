#!/usr/bin/env python3
"""Print the prompt for a mutation-seeding sub-agent: property text + scratch worktree only."""
import json, sys
pid, name = sys.argv[1], sys.argv[2]
hint = sys.argv[3] if len(sys.argv) > 3 else ""
p = next(json.loads(l) for l in open('/verif/properties.jsonl') if json.loads(l)['id'] == pid)
wt = f"/tmp/wt/{name}"
print(f"""You are helping to test how well a verification effort detects regressions in the open-source library cherab-core (plasma spectroscopy modelling on Raysect; Python + Cython). You work ONLY inside your own scratch git worktree {wt} (already created from the pinned commit and already built). Never read, list or modify /verif or /repo, and do not look for other worktrees.

How to work in the worktree:
- run Python with `{wt}/py` (a wrapper around /venv/bin/python that imports `cherab` from this worktree). `import cherab.core` first before importing deep submodules.
- after editing any .pyx/.pxd file rebuild with: cd {wt} && /venv/bin/python setup.py build_ext -j8 --inplace   (a few seconds per changed file; pure .py edits need no build)
- run the existing test suite with: cd {wt} && ./py -m pytest -q -p no:cacheprovider --timeout=900 -n 4   (579 tests; prefix the command with OMP_NUM_THREADS=1 OPENBLAS_NUM_THREADS=1 MKL_NUM_THREADS=1 - then it takes ~1 min, otherwise BLAS oversubscribes the machine and tests can time out). No network is available.

The property under study (must hold for the unmodified library):

TITLE: {p['title']}
STATEMENT: {p['statement']}
QUANTIFIED OVER: {p['quantifier']['text']}
RELEVANT FILES: {', '.join(p['anchors']['files'])}

YOUR TASK: write ONE realistic change to the library source (not to its tests) that BREAKS this property while the library still compiles and the ENTIRE existing test suite still passes. It should be the kind of slip a maintainer could plausibly introduce (a refactoring mistake, a missed cache invalidation, a wrong index/key/sign/bound, an off-by-one at a boundary, a dropped notification, two sites that each look fine alone). It must need something specific to manifest — a particular multi-step sequence of operations, an unusual but legitimate input, a particular configuration — rather than being exposed at once by ordinary use. Keep the patch small (typically 1-15 changed lines). Do not add obviously artificial code (no `if x == 12345`), no random behaviour, no environment checks. {hint}

Then write a demonstration: a small standalone script that uses only the public API, exits 0 on the unmodified library and exits 1 (printing what differs) with your change applied. Verify both directions yourself (use `git diff > p.diff; git checkout -- .; ...; git apply p.diff`, rebuilding in between if .pyx changed; do NOT use `git stash` - the stash is shared with other worktrees), and run the full existing test suite with the change applied to confirm it still passes (report the pytest summary line).

Deliverables (create the directory {wt}/OUT):
- {wt}/OUT/patch.diff : `git diff` of the library change only (must apply with `git apply` at the worktree root on a clean checkout)
- {wt}/OUT/demo.py : the demonstration script (run as `./py OUT/demo.py` from the worktree root)
- {wt}/OUT/notes.md : which clause of the property is broken, what is needed for it to manifest, and the exact commands/outputs you used to confirm (demo passes without / fails with the patch; pytest summary with the patch).
Leave the worktree with the patch APPLIED and built. In your final message give a 5-line summary: files changed, the clause broken, trigger condition, demo result both ways, pytest summary line.""")
