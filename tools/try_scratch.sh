#!/bin/sh
# try_scratch.sh <name> <Cxx> [tier]: run a check of the current /verif working tree against the (already patched and built)
# scratch worktree /tmp/wt/<name>, from a scratch copy of /verif, so that neither /repo nor /verif/evidence is touched.
n="$1"; id="$2"; tier="${3:-quick}"; RV=/tmp/rv_$n
rm -rf "$RV"; mkdir -p "$RV"
rsync -a --exclude=.git --exclude=out --exclude=seeded /verif/ "$RV"/ || exit 2
mkdir -p "$RV/out"
(cd "$RV" && VERIF_REPO=/tmp/wt/$n PYTHONPATH=/tmp/wt/$n bin/check "$id" "$tier" > "$RV/out/run.log" 2>&1); rc=$?
grep -v "^KNOWN\|^Plasma neut" "$RV/out/run.log" | tail -4
echo "exit=$rc"
echo "$(date +%H:%M) scratch $n $id $tier exit=$rc" >> /verif/out/try_seed.log
rm -rf "$RV"
