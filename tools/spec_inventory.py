#!/usr/bin/env python3
"""Print a markdown inventory of /verif/spec: module, size, variables, invariants / properties checked by TLC (as named in the
adapters' configurations), adapters using it, and the state counts of the last evidence run."""
import glob, json, os, re
spec = sorted(glob.glob('/verif/spec/*.tla')) + sorted(glob.glob('/verif/spec/apalache/*.tla'))
adapters = {p: open(p).read() for p in glob.glob('/verif/mbt/*.py')}
ev = {}
for f in glob.glob('/verif/evidence/*.json'):
    d = json.load(open(f))
    pid = os.path.basename(f)[:-5]
    for k, v in (d.get('extra', {}) or {}).get('tlc_runs', {}).items() if isinstance((d.get('extra', {}) or {}).get('tlc_runs'), dict) else []:
        ev.setdefault(k.split('/')[0], []).append((pid, v))
print("| module | lines | variables | checked by TLC / Apalache | used by |")
print("|---|---|---|---|---|")
for p in spec:
    name = os.path.basename(p)[:-4]
    txt = open(p).read()
    lines = txt.count('\n')
    vs = re.findall(r'^VARIABLES?\s+(.*?)(?:\n[A-Za-z\\(]|\n\n)', txt, re.S | re.M)
    vars_ = re.sub(r'\\\*.*', '', ' '.join(vs)).replace('\n', ' ')
    vars_ = ', '.join(x.strip() for x in vars_.split(',') if x.strip())
    used, props = [], set()
    for ap, at in adapters.items():
        if re.search(r'run_tlc\("%s"' % name, at) or re.search(r'"%s"' % name, at) and 'specmut' not in ap and ('inductive' in at or 'run_tlc' in at) and name in at:
            used.append(os.path.basename(ap)[:-3])
            for m in re.finditer(r'(?:INVARIANT|PROPERTY|ACTION_CONSTRAINT|POSTCONDITION)\s+(\w+)', at):
                if re.search(r'^%s\s*(\(|==)' % m.group(1), txt, re.M):
                    props.add(m.group(1))
    props -= {'Emit', 'EmitCase', 'EmitSOS', 'Progress'}
    print(f"| `{name}` | {lines} | {vars_[:90]} | {', '.join(sorted(props))[:160]} | {', '.join(sorted(set(used)))} |")
