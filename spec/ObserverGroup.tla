--------------------------- MODULE ObserverGroup ---------------------------
(***************************************************************************)
(* C15 - observer groups (cherab/tools/observers/group/*.py, BolometerCamera *)
(* in bolometry.py) as a state machine that is generic in the group class and *)
(* in the broadcast attribute: attribute "a" is the attribute under test,     *)
(* "b" a second attribute of the same class (so that an assignment to one     *)
(* leaking into the other is a different state).  Value 0 is the observer's   *)
(* constructor default.                                                       *)
(***************************************************************************)
EXTENDS Naturals, Sequences, FiniteSets, TLC, Json

CONSTANTS Obs,        \* observer identities that can be added to the group
          Vals,       \* abstract attribute values (>= 1)
          Names,      \* observer names (fewer names than observers => duplicates occur)
          Kinds,      \* container kinds of a sequence assignment: "list", "tuple", "ndarray"
          MaxHist

VARIABLES members,    \* Seq(Obs) without repetition: group.observers
          val,        \* [{"a","b"} -> [Obs -> {0} \cup Vals]]: each observer's own attribute value
          name,       \* [Obs -> Names]
          parent,     \* [Obs -> {"none", "group"}]: scene-graph parent of each observer
          nobs,       \* [Obs -> Nat]: how often each observer has been observed
          outcome,    \* "ok" or the exception class of the last call
          hist
vars == <<members, val, name, parent, nobs, outcome, hist>>

ASSUME {1, 2} \subseteq Obs
\* initial member sequences: an empty group and a group constructed with two observers
InitMembers == {<<>>, <<1, 2>>}

Attrs == {"a", "b"}
RealNames == Names \ {"none"}
Rng(s) == {s[i] : i \in 1..Len(s)}
NoRep(s) == \A i, j \in 1..Len(s) : i # j => s[i] # s[j]
Perms(S) == {s \in UNION {[1..n -> S] : n \in 0..Cardinality(S)} : NoRep(s)}

Init == /\ members \in InitMembers
        /\ val = [a \in Attrs |-> [o \in Obs |-> 0]]
        /\ name \in {[o \in Obs |-> "n1"], [o \in Obs |-> IF o = 1 THEN "none" ELSE "n1"], [o \in Obs |-> "none"]}   \* "none": never named
        /\ parent = [o \in Obs |-> IF o \in Rng(members) THEN "group" ELSE "none"]
        /\ nobs = [o \in Obs |-> 0]
        /\ outcome = "ok"
        /\ hist = <<[op |-> "init", s |-> members, name0 |-> name]>>

Log(e) == hist' = Append(hist, e)

\* group.add_observer(o): appended, re-parented to the group
Add(o) == /\ o \notin Rng(members)
          /\ members' = Append(members, o)
          /\ parent' = [parent EXCEPT ![o] = "group"]
          /\ outcome' = "ok"
          /\ UNCHANGED <<val, name, nobs>> /\ Log([op |-> "add", o |-> o])

\* group.add_observer(<observer of another type>): refused, nothing changes
AddWrongType == /\ outcome' = "rejected"
                /\ UNCHANGED <<members, val, name, parent, nobs>> /\ Log([op |-> "add_wrong_type"])

\* group.observers = [...]: the given observers become the members, in that order
SetObservers(s) == /\ members' = s
                   /\ parent' = [o \in Obs |-> IF o \in Rng(s) THEN "group" ELSE parent[o]]
                   /\ outcome' = "ok"
                   /\ UNCHANGED <<val, name, nobs>> /\ Log([op |-> "set_observers", s |-> s])

\* the caller keeps and later mutates the very list it assigned to group.observers (appends a foreign object, or clears it),
\* or mutates the sequence a read returned: the group's membership is its own and must not change
CallerMutatesList(how) ==
    /\ \E i \in 1..Len(hist) : hist[i].op \in {"set_observers", "init"}
    /\ outcome' = "ok"
    /\ UNCHANGED <<members, val, name, parent, nobs>> /\ Log([op |-> "caller_mutates_list", how |-> how])

\* group.<attr> = v   (a single value): every member gets it
AssignScalar(a, v) == /\ val' = [val EXCEPT ![a] = [o \in Obs |-> IF o \in Rng(members) THEN v ELSE @[o]]]
                      /\ outcome' = "ok"
                      /\ UNCHANGED <<members, name, parent, nobs>> /\ Log([op |-> "assign_scalar", a |-> a, v |-> v])

\* group.<attr> = [v1, ..., vn] with n = len(group): element-wise
AssignSeq(a, vs, kind) ==
    /\ Len(vs) = Len(members)
    /\ val' = [val EXCEPT ![a] = [o \in Obs |-> IF o \in Rng(members)
                                                  THEN vs[CHOOSE i \in 1..Len(members) : members[i] = o] ELSE @[o]]]
    /\ outcome' = "ok"
    /\ UNCHANGED <<members, name, parent, nobs>> /\ Log([op |-> "assign_seq", a |-> a, vs |-> vs, kind |-> kind])

\* a sequence of any other length: ValueError and nothing changes
AssignSeqWrongLen(a, vs, kind) ==
    /\ Len(vs) # Len(members)
    /\ outcome' = "ValueError"
    /\ UNCHANGED <<members, val, name, parent, nobs>> /\ Log([op |-> "assign_seq", a |-> a, vs |-> vs, kind |-> kind])

\* group.names = [...]
AssignNames(ns) ==
    /\ Len(ns) = Len(members)
    /\ name' = [o \in Obs |-> IF o \in Rng(members) THEN ns[CHOOSE i \in 1..Len(members) : members[i] = o] ELSE name[o]]
    /\ outcome' = "ok"
    /\ UNCHANGED <<members, val, parent, nobs>> /\ Log([op |-> "assign_names", ns |-> ns])

AssignNamesWrongLen(ns) ==
    /\ Len(ns) # Len(members)
    /\ outcome' = "ValueError"
    /\ UNCHANGED <<members, val, name, parent, nobs>> /\ Log([op |-> "assign_names", ns |-> ns])

\* a member observer is changed directly (observer.<attr> = v): the group must report it
SetMember(o, a, v) == /\ val' = [val EXCEPT ![a][o] = v]
                      /\ outcome' = "ok"
                      /\ UNCHANGED <<members, name, parent, nobs>> /\ Log([op |-> "set_member", o |-> o, a |-> a, v |-> v])

\* observer.name = n on an observer (member or not) directly
Rename(o, n) == /\ name[o] # n
                /\ name' = [name EXCEPT ![o] = n] /\ outcome' = "ok"
                /\ UNCHANGED <<members, val, parent, nobs>> /\ Log([op |-> "rename", o |-> o, n |-> n])

\* group.observe(): every member observed exactly once
Observe == /\ nobs' = [o \in Obs |-> IF o \in Rng(members) THEN nobs[o] + 1 ELSE nobs[o]]
           /\ outcome' = "ok"
           /\ UNCHANGED <<members, val, name, parent>> /\ Log([op |-> "observe"])

SeqsUpTo(n, S) == UNION {[1..k -> S] : k \in 0..n}

NextStep ==
  \/ \E o \in Obs : Add(o)
  \/ AddWrongType
  \/ \E s \in Perms(Obs) : SetObservers(s)
  \/ \E how \in {"append_to_assigned", "clear_assigned", "append_to_returned"} : CallerMutatesList(how)
  \/ \E a \in Attrs, v \in Vals : AssignScalar(a, v)
  \/ \E a \in Attrs, k \in Kinds :
        \/ \E vs \in [1..Len(members) -> Vals] : AssignSeq(a, vs, k)
        \/ \E n \in 0..(Cardinality(Obs) + 1) : AssignSeqWrongLen(a, [i \in 1..n |-> 1], k)
  \/ \E ns \in [1..Len(members) -> RealNames] : AssignNames(ns)         \* (raysect refuses None as a name)
  \/ \E o \in Obs, n \in RealNames : Rename(o, n)
  \/ \E n \in 0..(Cardinality(Obs) + 1) : AssignNamesWrongLen([i \in 1..n |-> "n1"])
  \/ \E o \in Obs, a \in Attrs, v \in Vals : SetMember(o, a, v)
  \/ Observe

Next == Len(hist) <= MaxHist /\ NextStep
Spec == Init /\ [][Next]_vars

-----------------------------------------------------------------------------
\* what reading the group returns (the projection the harness compares with the real group)
ReadAttrS(m, vl, a) == [i \in 1..Len(m) |-> vl[a][m[i]]]
ReadAttr(a) == ReadAttrS(members, val, a)
ReadNames   == [i \in 1..Len(members) |-> name[members[i]]]
\* lookup by position: group[i] is members[i] for every valid Python index (-n .. n - 1), slices select sub-sequences in
\* member order, an index outside that range raises (checked by the harness on the member sequence below)
\* lookup by unique name; "none" stands for an observer without a name (raysect's default, name = None): it cannot be
\* looked up and does not stand in the way of the named members
Count(n)    == Cardinality({i \in 1..Len(members) : name[members[i]] = n})
Unique(n)   == Count(n) = 1
ByName      == {<<n, CHOOSE o \in Rng(members) : name[o] = n>> : n \in {m \in RealNames : Unique(m)}}
DupNames    == {n \in RealNames : Count(n) > 1}
Absent      == {n \in RealNames \cup {"n9"} : Count(n) = 0}         \* looking these up raises ValueError

TypeOK == /\ NoRep(members) /\ Rng(members) \subseteq Obs
          /\ val \in [Attrs -> [Obs -> {0} \cup Vals]]
MembersParented == \A o \in Rng(members) : parent[o] = "group"
\* a rejected call changes nothing
RejectedIsNoop == [][outcome' # "ok" => UNCHANGED <<members, val, name, parent, nobs>>]_vars
\* broadcast / element-wise post-conditions, as action properties over the history entry
AssignPost == [][LET e == hist'[Len(hist')] IN
                 /\ (e.op = "assign_scalar" => \A i \in 1..Len(members') : ReadAttrS(members', val', e.a)[i] = e.v)
                 /\ (e.op = "assign_seq" /\ outcome' = "ok" => ReadAttrS(members', val', e.a) = e.vs)
                 /\ (e.op \in {"assign_scalar", "assign_seq"} => \A b \in Attrs \ {e.a} : val'[b] = val[b])]_vars
\* observers outside the group are never touched by a group-level call
OutsidersUntouched == [][(hist'[Len(hist')].op \notin {"set_member"} =>
                          \A o \in Obs \ Rng(members) : \A a \in Attrs : val'[a][o] = val[a][o])]_vars
ObserveOnce == [][(hist'[Len(hist')].op = "observe" =>
                   \A o \in Obs : nobs'[o] = nobs[o] + (IF o \in Rng(members) THEN 1 ELSE 0))]_vars

View == <<members, val, name, parent, nobs, outcome>>
Emit == PrintT(ToJson([h |-> hist', members |-> members', a |-> ReadAttr("a")', b |-> ReadAttr("b")',
                       names |-> ReadNames', byname |-> ByName', dup |-> DupNames', absent |-> Absent',
                       nobs |-> [i \in 1..Len(members') |-> nobs'[members'[i]]],
                       outsiders |-> {<<o, nobs'[o]>> : o \in Obs \ Rng(members')},
                       outvals |-> {<<o, val'["a"][o], val'["b"][o]>> : o \in Obs \ Rng(members')}, outcome |-> outcome']))
=============================================================================
