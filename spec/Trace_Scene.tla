---------------------------- MODULE Trace_Scene ----------------------------
(* Trace validation for C01: histories recorded from a real scene (mbt/c01_trace.py) must be behaviours of Scene.tla.   *)
(* Every event carries the public call and the set of callbacks (owner class . method) that were registered and live   *)
(* on the notifiers the call fired; each set-event is checked against the Set action and must have notified at least   *)
(* the callbacks the specification's wiring requires.                                                                   *)
EXTENDS Scene, IOUtils, TLCExt

Traces == JsonDeserialize(IOEnv.TRACE_FILE)
VARIABLES tid, l
tvars == <<cfg, filled, at, hist, tid, l>>
Ev == Traces[tid][l]
Rng(sq) == {sq[i] : i \in 1..Len(sq)}
Step == l <= Len(Traces[tid]) /\ l' = l + 1 /\ UNCHANGED tid

TraceInit == /\ tid \in 1..Len(Traces) /\ l = 1
             /\ cfg = AllOnes /\ filled = FreshFilled /\ at = AtFor(filled, cfg)
             /\ hist = <<[E0 EXCEPT !.op = "init"]>>
TSet == Step /\ Ev.op = "set" /\ Ev.p \in Params /\ Ev.v \in Values(Ev.p)
        /\ Ev.via \in Vias(Ev.p) /\ Set(Ev.p, Ev.v, Ev.via)
        \* ("__blind__": the recorder could not see the registry of this version of the library; the state is validated only)
        /\ (IsNoOp(Ev.p, Ev.v) \/ "__blind__" \in Rng(Ev.ran) \/ Required(Ev.p, cfg') \subseteq Rng(Ev.ran))
TObserve == Step /\ Ev.op = "observe" /\ Observe(Ev.k)
TraceNext == TSet \/ TObserve
TraceSpec == TraceInit /\ [][TraceNext]_tvars
Progress == PrintT(ToJson([tid |-> tid, l |-> l]))
=============================================================================
