---------------------------- MODULE BeamDensity ----------------------------
(***************************************************************************)
(* C04 - Beam.density / Beam.direction with a SingleRayAttenuator            *)
(* (cherab/core/beam/node.pyx, cherab/core/model/attenuator/singleray.pyx)   *)
(* over exact rationals.  The plasma is uniform along the beam, so the       *)
(* composite stopping coefficient                                            *)
(*     S = sum_i Z_i n_i s_i(n_eq,i),   n_eq,i = (1/Z_i) sum_j Z_j^2 n_j     *)
(* is constant and the attenuation integral is S z exactly (the cumulative   *)
(* trapezoid is exact).  The mock stopping rate of species i is              *)
(* s_i(n_eq) = a_i + c_i n_eq (integers), so S depends on the equivalent     *)
(* density of *all* species.  Lengths are integers over the denominator D.   *)
(* A case = beam shape + species mix + one lattice point; the spec gives the *)
(* domain class of the point and, inside, the exact ingredients of           *)
(*   n(x,y,z) = N0 exp(-S z / v) exp(-(x^2/sx^2 + y^2/sy^2)/2) / (2 pi sx sy) *)
(* One TLC state per case.                                                   *)
(***************************************************************************)
EXTENDS Integers, Sequences, FiniteSets, TLC, Json

CONSTANT Deep       \* FALSE: the lattice of the quick tier; TRUE: every integer z and more transverse points (thorough)

D == 10                                          \* lengths are k / D metres
\* species mixes: sequences of <<charge Z, density units n, a, c>>  (density unit 1e18 m^-3)
Mixes == << << <<1, 4, 3, 0>> >>,                                           \* one ion species, constant stopping rate
            << <<1, 4, 2, 1>>, <<6, 1, 1, 2>> >>,                           \* two ion species, rates depend on n_eq
            << <<1, 3, 0, 2>>, <<6, 1, 3, 1>>, <<10, 1, 1, 1>> >>,          \* three ion species
            << <<1, 4, 0, 0>>, <<2, 1, 0, 0>> >>,                           \* no stopping at all
            << <<1, 3, 1, 1>>, <<5, 1, 2, 1>>, <<6, 1, 1, 3>> >>,           \* two charge states of one element (C5+, C6+), each with its own rate
            << <<9, 1, 3, 0>>, <<10, 1, 1, 1>>, <<8, 1, 0, 2>> >> >>        \* three charge states of neon, listed out of order
\* beam shapes: <<sigma*D, tan(alpha_x)*D, tan(alpha_y)*D, length*D, clamp on?, clamp_sigma>>
Shapes == << <<1, 0, 0, 40, FALSE, 5>>, <<1, 2, 0, 40, TRUE, 2>>, <<2, 1, 3, 30, TRUE, 3>>, <<1, 1, 1, 20, FALSE, 5>> >>
Xs == IF Deep THEN {-7, -3, -1, 0, 1, 2, 6} ELSE {0, 1, -3, 6}
Ys == IF Deep THEN {-4, -2, 0, 1, 4} ELSE {0, -2, 4}
Zs == IF Deep THEN -1..41 ELSE {-1, 0, 5, 20, 30, 31, 40, 41}
\* attenuator step in centimetres: commensurate with every beam length (50), and not (30, 7)
StepsCm == {50, 30, 7}

\* bulk velocity of the plasma ions in the beam frame, in tenths of the beam speed: at rest, or (2, 3, 4) so that the
\* relative velocity (-2, -3, 10 - 4) has the integer length 7 (a Pythagorean quadruple)
Flows == {<<0, 0, 0>>, <<2, 3, 4>>}

VARIABLES mix, shape, x, y, z, step, flow,
          prior      \* "none": the beam is where it was built; "moved": it was built and evaluated one metre to the side, where the
                     \* plasma has three times the densities, and then moved here (the density depends on where the beam is now)
vars == <<mix, shape, x, y, z, step, flow, prior>>
Init == /\ mix \in 1..Len(Mixes) /\ shape \in 1..Len(Shapes) /\ x \in Xs /\ y \in Ys /\ z \in Zs /\ step \in StepsCm
        /\ flow \in Flows /\ (flow # <<0, 0, 0>> => step = 50 /\ y = 0)         \* flows explored on the commensurate lattice
        /\ prior \in {"none", "moved"} /\ (prior = "moved" => flow = <<0, 0, 0>> /\ step = 50 /\ y = 0)
Next == UNCHANGED vars
Spec == Init /\ [][Next]_vars

M == Mixes[mix]
Sh == Shapes[shape]
RECURSIVE SumSeq(_, _)
SumSeq(f, n) == IF n = 0 THEN 0 ELSE f[n] + SumSeq(f, n - 1)
Z2N == SumSeq([i \in 1..Len(M) |-> M[i][1] * M[i][1] * M[i][2]], Len(M))        \* sum_j Z_j^2 n_j
\* S in units: sum_i Z_i n_i (a_i + c_i Z2N / Z_i) = sum_i n_i (Z_i a_i + c_i Z2N)
S == SumSeq([i \in 1..Len(M) |-> M[i][2] * (M[i][1] * M[i][3] + M[i][4] * Z2N)], Len(M))
\* per species: the equivalent density the stopping rate must be evaluated at, as <<Z2N, Z_i>> (ratio)
NEq == [i \in 1..Len(M) |-> <<Z2N, M[i][1]>>]

\* sigma_x^2 (z) * D^4 = (sigma D)^2 D^2 + (z D)^2 (tan D)^2 ... all numerators over D^4
SX2 == Sh[1] * Sh[1] * D * D + z * z * Sh[2] * Sh[2]
SY2 == Sh[1] * Sh[1] * D * D + z * z * Sh[3] * Sh[3]
\* normalised radius squared (x/sx)^2 + (y/sy)^2 as a fraction:  (x^2 D^2 SY2 + y^2 D^2 SX2) / (SX2 SY2)
R2num == x * x * D * D * SY2 + y * y * D * D * SX2
R2den == SX2 * SY2
Clamped == Sh[5] /\ R2num > Sh[6] * Sh[6] * R2den
Class == IF z < 0 THEN "zero_before_source" ELSE IF z > Sh[4] THEN "zero_beyond_length" ELSE IF Clamped THEN "zero_outside_clamp" ELSE "value"

\* interaction energy / beam energy = |v_beam - v_ion|^2 / v_beam^2 as <<num, den>>; the mock stopping rate is proportional to it,
\* so the composite coefficient is S * EFac
EFac == <<flow[1] * flow[1] + flow[2] * flow[2] + (10 - flow[3]) * (10 - flow[3]), 100>>
FlowSlowsOrKeeps == EFac[1] > 0

\* ---- the tabulation lattice of the attenuation (SingleRayAttenuator._calc_attenuation): nbeam nodes spread evenly over the
\* beam length, at least 4 and at most one step apart; the node spacing is length / (nbeam - 1), which is the step only when
\* the step divides the length.  For a uniform plasma the attenuation at the nodes is exact whatever the spacing.
CeilDiv(p, q) == IF p % q = 0 THEN p \div q ELSE (p \div q) + 1
LenCm == (Sh[4] * 100) \div D
NBeam == LET n == 1 + CeilDiv(LenCm, step) IN IF n < 4 THEN 4 ELSE n
OnNode == z >= 0 /\ z <= Sh[4] /\ (z * (NBeam - 1)) % Sh[4] = 0
SpacingAtMostStep == LenCm <= step * (NBeam - 1)

\* ---- properties of the formula
\* on-axis density never increases with z: the exponent S z is non-decreasing (S >= 0)
Monotone == S >= 0
\* without stopping the flux n(0,0,z) 2 pi sx sy v = N0 v is the same at every z for every divergence: exponent identically 0
NoStoppingConservesFlux == (mix = 4) => S = 0
\* streamlines keep x / sigma_x(z) constant:  e_x / e_z = x sigma_x'(z) / sigma_x(z) = x z tan^2 / sigma_x^2
\* with e_x = x z^2 tan^2 / sigma_x^2 and e_z = z  (cross-multiplied, z > 0)
DirX == x * z * z * Sh[2] * Sh[2]          \* e_x numerator over SX2 (times D ...), e_z = z
Streamline == z > 0 => DirX * 1 = (x * z * Sh[2] * Sh[2]) * z

EmitCase == PrintT(ToJson([prior |-> prior, mix |-> M, shape |-> Sh, D |-> D, step_cm |-> step, flow |-> flow, efac |-> EFac, nbeam |-> NBeam, on_node |-> OnNode, x |-> x, y |-> y, z |-> z, class |-> Class, S |-> S, z2n |-> Z2N, neq |-> NEq,
                           sx2 |-> SX2, sy2 |-> SY2, dir |-> << <<x * z * z * Sh[2] * Sh[2], SX2>>, <<y * z * z * Sh[3] * Sh[3], SY2>>, <<z, 1>> >>]))
=============================================================================
