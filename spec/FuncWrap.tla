------------------------------ MODULE FuncWrap ------------------------------
(***************************************************************************)
(* C13 - coordinate-mapping function wrappers and samplers of               *)
(* cherab.core.math (mappers, clamp, slice, mask, transform/periodic,       *)
(* transform/cylindrical, samplers) as exact pointwise compositions.  The   *)
(* wrapped function is observable: the harness wraps a recording callable,  *)
(* so a case states which argument tuple the inner function must receive    *)
(* (InnerArgs) and how the result is post-processed.  Coordinates are        *)
(* integers over the common denominator D; radii use Pythagorean points so  *)
(* sqrt(x^2+y^2) and (cos phi, sin phi) are rational.  One TLC state per case.*)
(***************************************************************************)
EXTENDS Integers, Sequences, FiniteSets, TLC, Json

D == 10                                   \* coordinates are k / D; periods 0.5, 1.0, 2.5 are exact binary fractions, so the
                                          \* lattice value of x mod p is what IEEE fmod returns to within an ulp of x
                                          \* (periods 0.7, 0.3, 0.1 - not representable exactly, least of all in single precision -
                                          \* are explored through the PeriodicToken cases: congruence modulo the period as given)
Coord == {-12, -5, -4, 0, 3, 7, 25}       \* a few 1-D arguments (numerators)
\* planar points with integer radius (numerators): <<x, y, r>>
Pyth == {<<3, 4, 5>>, <<-3, 4, 5>>, <<-4, -3, 5>>, <<5, -12, 13>>, <<0, 5, 5>>, <<-5, 0, 5>>, <<8, 6, 10>>, <<7, 0, 7>>, <<0, -2, 2>>}
Zs == {-3, 0, 6}

Min(a, b) == IF a <= b THEN a ELSE b
Max(a, b) == IF a >= b THEN a ELSE b
Clamp(x, lo, hi) == Min(Max(x, lo), hi)
BoundKinds == {"none", "lower", "upper", "both"}
AxLo(k) == CASE k = 1 -> -4 [] k = 2 -> -9 [] k = 3 -> 5
AxHi(k) == CASE k = 1 -> 3 [] k = 2 -> -6 [] k = 3 -> 8
ClampB(x, k, kind) == CASE kind = "none" -> x [] kind = "lower" -> Max(x, AxLo(k)) [] kind = "upper" -> Min(x, AxHi(k)) [] kind = "both" -> Clamp(x, AxLo(k), AxHi(k))

\* --- polygons on the integer lattice (vertices in order), convex and concave, both orientations
Poly(i) == CASE i = 1 -> <<<<0, 0>>, <<4, 0>>, <<4, 4>>, <<0, 4>>>>                                   \* square, counter-clockwise
             [] i = 2 -> <<<<0, 4>>, <<4, 4>>, <<4, 0>>, <<0, 0>>>>                                   \* square, clockwise
             [] i = 3 -> <<<<0, 0>>, <<6, 0>>, <<6, 2>>, <<2, 2>>, <<2, 6>>, <<0, 6>>>>               \* L-shape (concave)
             [] i = 4 -> <<<<0, 6>>, <<2, 6>>, <<2, 2>>, <<6, 2>>, <<6, 0>>, <<0, 0>>>>               \* L-shape, clockwise
             [] i = 5 -> <<<<0, 0>>, <<6, 0>>, <<3, 2>>, <<6, 6>>, <<0, 6>>>>                         \* concave dart
             [] i = 6 -> <<<<1, 0>>, <<5, 1>>, <<3, 5>>>>                                             \* triangle
             [] i = 7 -> <<<<0, 0>>, <<2, 0>>, <<2, 6>>, <<0, 6>>>>                                   \* tall rectangle (reaches higher in y than its largest x)
             [] i = 8 -> <<<<0, 0>>, <<6, 0>>, <<6, 2>>, <<0, 2>>>>                                   \* wide rectangle
             [] i = 9 -> <<<<-3, -5>>, <<-1, -5>>, <<-1, -1>>, <<-3, -1>>>>                           \* rectangle at negative coordinates
             [] i = 10 -> <<<<-2, -2>>, <<3, -1>>, <<1, 3>>, <<-3, 2>>>>                              \* quadrilateral around the origin
             [] i = 11 -> <<<<0, 0>>, <<1, 0>>, <<1, 5>>, <<2, 5>>, <<2, 0>>, <<3, 0>>, <<3, 6>>, <<0, 6>>>>   \* tall inverted U (concave)
NPolys == 11
\* test points at half-integers <<2x, 2y>> (never on an edge of these polygons except where excluded below)
HalfVals == {-11, -9, -7, -5, -3, -1, 1, 3, 5, 7, 9, 11, 13}
HalfPts == {<<a, b>> : a \in HalfVals, b \in HalfVals}
\* crossing number with exact integer arithmetic: edge (p, q) is crossed by the ray to +x from point (X/2, Y/2)
Crosses(p, q, X, Y) ==
    LET y1 == 2 * p[2]  y2 == 2 * q[2]  x1 == 2 * p[1]  x2 == 2 * q[1] IN
    /\ (y1 > Y) # (y2 > Y)
    /\ LET lhs == (X - x1) * (y2 - y1)  rhs == (x2 - x1) * (Y - y1)     \* X < x1 + (x2-x1)(Y-y1)/(y2-y1)
       IN IF y2 > y1 THEN lhs < rhs ELSE lhs > rhs
OnEdge(p, q, X, Y) ==
    LET y1 == 2 * p[2]  y2 == 2 * q[2]  x1 == 2 * p[1]  x2 == 2 * q[1] IN
    /\ (X - x1) * (y2 - y1) = (x2 - x1) * (Y - y1)
    /\ Min(x1, x2) <= X /\ X <= Max(x1, x2) /\ Min(y1, y2) <= Y /\ Y <= Max(y1, y2)
Edges(P) == {<<P[i], P[(i % Len(P)) + 1]>> : i \in 1..Len(P)}
Inside(P, X, Y) == Cardinality({e \in Edges(P) : Crosses(e[1], e[2], X, Y)}) % 2 = 1
OnBoundary(P, X, Y) == \E e \in Edges(P) : OnEdge(e[1], e[2], X, Y)

\* the wrappers are pure functions of the point: what was evaluated before does not matter, and a vector the wrapped
\* function hands out (and keeps) is never modified.  prev = "other": the wrapped function returns one retained vector
\* object and the wrapper has been evaluated at another point (another toroidal angle / period) first.
Prevs == {"none", "other"}
\* --- the cases
Cases ==
       {[w |-> "IsoMapper2D", x |-> p[1], y |-> p[2]] : p \in Pyth}
  \cup {[w |-> "IsoMapper3D", x |-> p[1], y |-> p[2], z |-> z] : p \in {<<3, 4, 5>>, <<-5, 0, 5>>}, z \in Zs}
  \cup {[w |-> "Swizzle2D", x |-> p[1], y |-> p[2]] : p \in Pyth}
  \cup {[w |-> "Swizzle3D", shape |-> <<a, b, c>>, x |-> 3, y |-> -4, z |-> 7] : a \in 0..2, b \in 0..2, c \in 0..2}
  \cup {[w |-> "Slice2D", axis |-> a, value |-> v, x |-> x] : a \in 0..1, v \in {-5, 3}, x \in {-4, 7}}
  \cup {[w |-> "Slice3D", axis |-> a, value |-> v, x |-> x, y |-> 25] : a \in 0..2, v \in {-5, 3}, x \in {-4, 7}}
  \cup {[w |-> "AxisymmetricMapper", x |-> p[1], y |-> p[2], r |-> p[3], z |-> z] : p \in Pyth, z \in Zs}
  \cup {[w |-> "VectorAxisymmetricMapper", x |-> p[1], y |-> p[2], r |-> p[3], z |-> z, prev |-> pv] : pv \in Prevs, p \in Pyth, z \in {6}}
  \cup {[w |-> "AxisToken", mapper |-> m, token |-> t, z |-> 6] : m \in {"AxisymmetricMapper", "VectorAxisymmetricMapper", "CylindricalTransform", "VectorCylindricalTransform"},
                                                                   t \in {"origin", "tiny_x", "tiny_neg_y", "subnormal_x", "tiny_neg_x"}}
  \cup {[w |-> "CylindricalTransform", x |-> p[1], y |-> p[2], r |-> p[3], z |-> z] : p \in Pyth, z \in {-3, 6}}
  \cup {[w |-> "VectorCylindricalTransform", x |-> p[1], y |-> p[2], r |-> p[3], z |-> z, prev |-> pv] : pv \in Prevs, p \in Pyth, z \in {6}}
  \cup {cc \in {[w |-> "ClampInput1D", lo |-> lo, hi |-> hi, x |-> x] : lo \in {-5, 0}, hi \in {0, 7}, x \in Coord} : cc.lo < cc.hi}   \* the constructors require min < max
  \cup {[w |-> "ClampInput2D", lo |-> -4, hi |-> 3, x |-> x, y |-> y] : x \in {-12, 0, 25}, y \in {-5, 3, 7}}
  \cup {[w |-> "ClampInput3D", lo |-> -4, hi |-> 3, x |-> x, y |-> y, z |-> z] : x \in {-12, 25}, y \in {-5, 7}, z \in {0, 25}}
  \* every combination of absent / lower / upper / both bounds per axis, passed by keyword; the ranges of the axes lie apart
  \* (y entirely below, z entirely above the x range), so a bound of one axis compared with another axis' shows
  \cup {[w |-> "ClampInputBounds", kinds |-> <<k1>>, x |-> x] : k1 \in BoundKinds, x \in {-12, 0, 25}}
  \cup {[w |-> "ClampInputBounds", kinds |-> <<k1, k2>>, x |-> x, y |-> y] : k1 \in BoundKinds, k2 \in BoundKinds, x \in {-12, 25}, y \in {-12, 0}}
  \cup {[w |-> "ClampInputBounds", kinds |-> <<k1, k2, k3>>, x |-> x, y |-> y, z |-> z] : k1 \in BoundKinds, k2 \in BoundKinds, k3 \in BoundKinds, x \in {-12, 25}, y \in {-12, 0}, z \in {0, 25}}
  \cup {cc \in {[w |-> "ClampOutput1D", lo |-> lo, hi |-> hi, x |-> x] : lo \in {-5, 0}, hi \in {0, 7}, x \in Coord} : cc.lo < cc.hi}
  \cup {[w |-> "ClampOutput2D", lo |-> -4, hi |-> 3, x |-> x, y |-> 0] : x \in Coord}
  \cup {[w |-> "ClampOutput3D", lo |-> -4, hi |-> 3, x |-> x, y |-> 0, z |-> 0] : x \in Coord}
  \cup {[w |-> "PeriodicTransform1D", p |-> p, x |-> x] : p \in {5, 10, 25}, x \in Coord \cup {-25, -10, 10, 20, 50, -1, 1}}
  \cup {[w |-> "PeriodicTransform2D", p |-> 5, q |-> 25, x |-> x, y |-> y] : x \in {-12, 0, 25, 7}, y \in {-5, 3, -4}}
  \cup {[w |-> "PeriodicTransform3D", p |-> 5, q |-> 25, s |-> 10, x |-> x, y |-> y, z |-> z] : x \in {-12, 7}, y \in {-5, 3}, z \in {-25, 25}}
  \cup {[w |-> "VectorPeriodicTransform1D", p |-> 5, x |-> x, prev |-> pv] : pv \in Prevs, x \in Coord}
  \cup {[w |-> "VectorPeriodicTransform2D", p |-> 5, q |-> 25, x |-> x, y |-> y, prev |-> pv] : pv \in Prevs, x \in {-12, 7}, y \in {-5, 3}}
  \cup {[w |-> "VectorPeriodicTransform3D", p |-> 5, q |-> 25, s |-> 10, x |-> x, y |-> y, z |-> z, prev |-> pv] : pv \in Prevs, x \in {-12, 7}, y \in {-5}, z \in {-25, 25}}
  \cup {[w |-> "PeriodicToken", p |-> p, token |-> t] : p \in {5, 10, 7, 3, 1}, t \in {"neg_tiny", "neg_zero", "huge", "neg_huge", "exact_multiple", "neg_exact_multiple", "just_below_period", "generic", "neg_generic"}}
  \cup {[w |-> "PolygonMask2D", poly |-> i, X |-> pt[1], Y |-> pt[2]] : i \in 1..NPolys, pt \in HalfPts}
  \cup {[w |-> "sample1d", lo |-> lo, hi |-> hi, n |-> n] : lo \in {-5}, hi \in {-5, 7}, n \in {1, 2, 3, 5}}
  \* sample counts for which lo + (n - 1) * fl((hi - lo) / (n - 1)) does not round back to hi: the last point is hi itself all the same
  \cup {[w |-> "sample1d", lo |-> 0, hi |-> 10, n |-> n] : n \in {50, 99, 104}} \cup {[w |-> "sample1d", lo |-> 3, hi |-> 9, n |-> 162]}
  \cup {[w |-> "sample1d", lo |-> -10, hi |-> 10, n |-> n] : n \in {108, 188}}
  \cup {[w |-> "sample2d", n |-> n, m |-> m] : n \in {1, 2, 4}, m \in {1, 3}}
  \cup {[w |-> "sample3d", n |-> n, m |-> m, k |-> k] : n \in {1, 3}, m \in {1, 2}, k \in {1, 4}}

\* argument tuple(s) the wrapped function must be called with, as numerators over D
\* ("r" entries: radius numerator; "phi": the angle is given by its rational (cos, sin) = (x/r, y/r))
Mod(x, p) == x % p              \* TLA+ modulus: result in 0..p-1 for p > 0, congruent to x
Expected(c) ==
  CASE c.w = "IsoMapper2D" -> [inner |-> <<c.x, c.y>>, post |-> "g_of_f"]
    [] c.w = "IsoMapper3D" -> [inner |-> <<c.x, c.y, c.z>>, post |-> "g_of_f"]
    [] c.w = "Swizzle2D"   -> [inner |-> <<c.y, c.x>>, post |-> "id"]
    [] c.w = "Swizzle3D"   -> [inner |-> [i \in 1..3 |-> <<c.x, c.y, c.z>>[c.shape[i] + 1]], post |-> "id"]
    [] c.w = "Slice2D"     -> [inner |-> IF c.axis = 0 THEN <<c.value, c.x>> ELSE <<c.x, c.value>>, post |-> "id"]
    [] c.w = "Slice3D"     -> [inner |-> CASE c.axis = 0 -> <<c.value, c.x, c.y>> [] c.axis = 1 -> <<c.x, c.value, c.y>> [] OTHER -> <<c.x, c.y, c.value>>, post |-> "id"]
    [] c.w = "AxisymmetricMapper" -> [inner |-> <<c.r, c.z>>, post |-> "id"]
    [] c.w = "VectorAxisymmetricMapper" -> [inner |-> <<c.r, c.z>>, post |-> "rotate_z", cs |-> IF c.r = 0 THEN <<1, 0, 1>> ELSE <<c.x, c.y, c.r>>]
    \* points on or next to the symmetry axis: radius 0 (to within the tolerance), direction = sign pattern of the token;
    \* exactly on the axis the angle is arbitrary, so any rotation about z of the inner vector is accepted
    [] c.w = "AxisToken" -> [inner |-> IF c.mapper \in {"AxisymmetricMapper", "VectorAxisymmetricMapper"} THEN <<0, c.z>> ELSE <<0, "phi", c.z>>,
                             post |-> IF c.mapper \in {"AxisymmetricMapper", "CylindricalTransform"} THEN "id" ELSE IF c.token = "origin" THEN "rotate_z_any" ELSE "rotate_z",
                             cs |-> CASE c.token = "origin" -> <<0, 0, 0>> [] c.token \in {"tiny_x", "subnormal_x"} -> <<1, 0, 1>>
                                      [] c.token = "tiny_neg_y" -> <<0, -1, 1>> [] c.token = "tiny_neg_x" -> <<-1, 0, 1>>]
    [] c.w = "CylindricalTransform" -> [inner |-> <<c.r, "phi", c.z>>, post |-> "id", cs |-> <<c.x, c.y, c.r>>]
    [] c.w = "VectorCylindricalTransform" -> [inner |-> <<c.r, "phi", c.z>>, post |-> "rotate_z", cs |-> <<c.x, c.y, c.r>>]
    [] c.w = "ClampInput1D" -> [inner |-> <<Clamp(c.x, c.lo, c.hi)>>, post |-> "id"]
    [] c.w = "ClampInput2D" -> [inner |-> <<Clamp(c.x, c.lo, c.hi), Clamp(c.y, c.lo - 1, c.hi + 2)>>, post |-> "id"]
    [] c.w = "ClampInput3D" -> [inner |-> <<Clamp(c.x, c.lo, c.hi), Clamp(c.y, c.lo - 1, c.hi + 2), Clamp(c.z, c.lo + 2, c.hi + 20)>>, post |-> "id"]
    [] c.w = "ClampInputBounds" -> [inner |-> [k \in 1..Len(c.kinds) |-> ClampB(<<c.x, IF Len(c.kinds) > 1 THEN c.y ELSE 0, IF Len(c.kinds) > 2 THEN c.z ELSE 0>>[k], k, c.kinds[k])],
                                    post |-> "id", bounds |-> [k \in 1..Len(c.kinds) |-> <<AxLo(k), AxHi(k)>>]]
    [] c.w \in {"ClampOutput1D"} -> [inner |-> <<c.x>>, post |-> "clamp", lo |-> c.lo, hi |-> c.hi]
    [] c.w \in {"ClampOutput2D"} -> [inner |-> <<c.x, c.y>>, post |-> "clamp", lo |-> c.lo, hi |-> c.hi]
    [] c.w \in {"ClampOutput3D"} -> [inner |-> <<c.x, c.y, c.z>>, post |-> "clamp", lo |-> c.lo, hi |-> c.hi]
    [] c.w \in {"PeriodicTransform1D", "VectorPeriodicTransform1D"} -> [inner |-> <<Mod(c.x, c.p)>>, post |-> "id"]
    [] c.w \in {"PeriodicTransform2D", "VectorPeriodicTransform2D"} -> [inner |-> <<Mod(c.x, c.p), Mod(c.y, c.q)>>, post |-> "id"]
    [] c.w \in {"PeriodicTransform3D", "VectorPeriodicTransform3D"} -> [inner |-> <<Mod(c.x, c.p), Mod(c.y, c.q), Mod(c.z, c.s)>>, post |-> "id"]
    [] c.w = "PeriodicToken" -> [inner |-> <<"in_[0,p)_and_congruent">>, post |-> "id"]
    [] c.w = "PolygonMask2D" -> [inner |-> <<>>, post |-> IF OnBoundary(Poly(c.poly), c.X, c.Y) THEN "boundary" ELSE IF Inside(Poly(c.poly), c.X, c.Y) THEN "one" ELSE "zero",
                                 vertices |-> Poly(c.poly)]
    [] c.w = "sample1d" -> [inner |-> <<>>, post |-> "grid", xs |-> [i \in 1..c.n |-> IF c.n = 1 THEN <<c.lo, 1>> ELSE <<c.lo * (c.n - 1) + (i - 1) * (c.hi - c.lo), c.n - 1>>]]
    [] c.w = "sample2d" -> [inner |-> <<>>, post |-> "grid"]
    [] c.w = "sample3d" -> [inner |-> <<>>, post |-> "grid"]

VARIABLE c
Init == c \in Cases
Next == UNCHANGED c
Spec == Init /\ [][Next]_c

\* periodic extension: the inner argument is in [0, p) and differs from x by a multiple of p
PeriodicInRange == c.w = "PeriodicTransform1D" => LET e == Expected(c).inner[1] IN 0 <= e /\ e < c.p /\ (c.x - e) % c.p = 0
ClampInRange == c.w = "ClampInput1D" /\ c.lo <= c.hi => LET e == Expected(c).inner[1] IN c.lo <= e /\ e <= c.hi
\* orientation of the vertex list does not matter (polygons 1/2 and 3/4 are reversals of each other)
OrientationIrrelevant == c.w = "PolygonMask2D" /\ c.poly \in {1, 3} => Inside(Poly(c.poly), c.X, c.Y) = Inside(Poly(c.poly + 1), c.X, c.Y)
\* the sampling grid starts at lo and ends at hi exactly
GridHitsBothEnds == c.w = "sample1d" /\ c.n >= 2 => LET xs == Expected(c).xs IN xs[1] = <<c.lo * (c.n - 1), c.n - 1>> /\ xs[c.n] = <<c.hi * (c.n - 1), c.n - 1>>
SwizzleIsProjection == c.w = "Swizzle3D" => \A i \in 1..3 : Expected(c).inner[i] \in {c.x, c.y, c.z}

EmitCase == PrintT(ToJson([case |-> c, exp |-> Expected(c), D |-> D]))
=============================================================================
