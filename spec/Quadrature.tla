----------------------------- MODULE Quadrature -----------------------------
(***************************************************************************)
(* C02 (integration of the Lorentzian part of the Stark profile over bins)   *)
(* cherab/core/math/integrators/integrators1d.pyx: GaussianQuadrature keeps  *)
(* a table of Gauss-Legendre roots/weights for the orders min..max, laid out *)
(* order after order, and integrate() walks this table from the lowest       *)
(* order until two successive estimates agree.  Every setter that changes    *)
(* the order range must rebuild the table; invalid values are refused with   *)
(* ValueError and change nothing.  A Gauss-Legendre rule of order n is exact *)
(* for polynomials of degree <= 2n-1, so with a fresh table every monomial   *)
(* of degree <= 2 min - 1 is integrated exactly whatever max and tolerance.  *)
(***************************************************************************)
EXTENDS Integers, Sequences, FiniteSets, TLC, Json

CONSTANTS
  \* @type: Int;
  MaxOrd,
  \* @type: Int;
  MaxHist

VARIABLES
  \* min_order, max_order
  \* @type: Int;
  lo,
  \* @type: Int;
  hi,
  \* id of the relative tolerance (1: 1e-5, 2: 1e-10)
  \* @type: Int;
  rtol,
  \* <<a, b>>: the order range the cached roots/weights table was built for
  \* @type: <<Int, Int>>;
  table,
  \* @type: Str;
  outcome,
  \* @type: Seq({op: Str, v: Int, lo: Int, hi: Int});
  hist,
  \* ghost: has anything been read since the last successful change (so that "read, then change" histories are explored)
  \* @type: Bool;
  touched
vars == <<lo, hi, rtol, table, outcome, hist, touched>>

Orders == 1..MaxOrd
Init == /\ lo \in Orders /\ hi \in Orders /\ lo <= hi
        /\ rtol = 1 /\ table = <<lo, hi>> /\ outcome = "ok" /\ touched = FALSE
        /\ hist = <<[op |-> "init", v |-> 0, lo |-> lo, hi |-> hi]>>
\* @type: ({op: Str, v: Int}) => Bool;
Log(e) == hist' = Append(hist, [op |-> e.op, v |-> e.v, lo |-> 0, hi |-> 0])

Refuse(e) == outcome' = "ValueError" /\ UNCHANGED <<lo, hi, rtol, table, touched>> /\ Log(e)

SetMin(v) == IF v >= 1 /\ v <= hi
             THEN lo' = v /\ table' = <<v, hi>> /\ outcome' = "ok" /\ touched' = FALSE /\ UNCHANGED <<hi, rtol>> /\ Log([op |-> "min_order", v |-> v])
             ELSE Refuse([op |-> "min_order", v |-> v])
SetMax(v) == IF v >= 1 /\ v >= lo
             THEN hi' = v /\ table' = <<lo, v>> /\ outcome' = "ok" /\ touched' = FALSE /\ UNCHANGED <<lo, rtol>> /\ Log([op |-> "max_order", v |-> v])
             ELSE Refuse([op |-> "max_order", v |-> v])
SetRtol(v) == IF v >= 1
              THEN rtol' = v /\ outcome' = "ok" /\ touched' = FALSE /\ UNCHANGED <<lo, hi, table>> /\ Log([op |-> "relative_tolerance", v |-> v])
              ELSE Refuse([op |-> "relative_tolerance", v |-> v])
\* integrate(): reads the table, changes nothing
Integrate == outcome' = "ok" /\ touched' = TRUE /\ UNCHANGED <<lo, hi, rtol, table>> /\ Log([op |-> "integrate", v |-> 0])

NextStep == \/ \E v \in 0..MaxOrd : SetMin(v) \/ SetMax(v)
            \/ \E v \in 0..2 : SetRtol(v)
            \/ Integrate
Next == Len(hist) <= MaxHist /\ NextStep
Spec == Init /\ [][Next]_vars

\* the table integrate() walks is the one of the current order range
TableCurrent == table = <<lo, hi>>
RangeValid == 1 <= lo /\ lo <= hi
\* degree up to which the first estimate, hence the result, is exact
ExactDegree == 2 * lo - 1
\* inductive (Apalache, spec/apalache/MC_Quadrature.tla): holds for setter sequences of any length
IndInv == TableCurrent /\ RangeValid /\ hi <= MaxOrd /\ rtol \in 1..2 /\ outcome \in {"ok", "ValueError"}

View == <<lo, hi, rtol, table, outcome, touched>>
Emit == PrintT(ToJson([h |-> hist', lo |-> lo', hi |-> hi', rtol |-> rtol', outcome |-> outcome', exact_degree |-> 2 * lo' - 1]))
=============================================================================
