----------------------------- MODULE Scene_SOS -----------------------------
(* Scene.tla restricted to the histories  <re-binding change> ; <observe everything> ; <any change>  from either initial  *)
(* scene: the shortest shape in which a subscription or cache lost by a re-binding setter shows (the intermediate          *)
(* observation fills the lazily computed state the last change must invalidate).  Explored exhaustively in the quick tier. *)
EXTENDS Scene
\* setters that replace objects others hold on to (new models, providers, attenuator, profile, species, re-pointing)
Rebind == {"P_models", "B_models", "L_models", "P_adata", "B_adata", "B_att", "L_profile", "L_spectrum", "B_plasma", "L_plasma",
           "P_comp", "P_geom", "P_edist", "P_bfield", "M_cxline", "P_integ", "B_integ", "L_integ"}
SOSNext == \/ /\ Len(hist) = 1
              /\ \E p \in Rebind \cap MutParams : \E v \in Values(p) : \E via \in Vias(p) : ViaOK(p, v, via) /\ Set(p, v, via)
           \/ /\ Len(hist) = 2 /\ Observe("all")
           \/ /\ Len(hist) = 3
              /\ \E p \in MutParams : \E v \in Values(p) : Set(p, v, "assign")
SOSSpec == Init /\ [][SOSNext]_vars
\* emit only complete histories
EmitSOS == Len(hist') = 4 => PrintT(ToJson([h |-> hist', cfg |-> cfg']))
=============================================================================
