------------------------------ MODULE Caching ------------------------------
(***************************************************************************)
(* C14 - Caching1D/2D/3D (cherab/core/math/caching/*.pyx): a function is     *)
(* sampled lazily on a node lattice and interpolated cell by cell.           *)
(* Per axis there are N cells 0..N-1 over the caching area; the nodes of     *)
(* cell c are c and c+1, its interpolation stencil is c-1..c+2 (node -1 and   *)
(* node N+1 lie one resolution step outside the area).  First evaluation in  *)
(* a cell samples exactly the stencil nodes not yet sampled (lexicographic   *)
(* order), then the cell's polynomial is fixed; later evaluations reuse it.  *)
(* For Dim = 1 the interpolant itself (cubic Hermite with central-difference *)
(* slopes) is evaluated exactly, scaled by 128 / h = 1, for integer cubics.  *)
(***************************************************************************)
EXTENDS Integers, Sequences, FiniteSets, TLC, Json

CONSTANTS Dim,        \* 1, 2 or 3
          N,          \* cells per axis
          MaxHist,
          PolyId      \* which wrapped function (Dim = 1): f(x) = a0 + a1 x + a2 x^2 + a3 x^3 on node coordinates

VARIABLES sampled,    \* set of nodes (Dim-tuples over -1..N+1) the wrapped function has been asked for
          calculated, \* set of cells (Dim-tuples over 0..N-1) whose polynomial is fixed
          hist
vars == <<sampled, calculated, hist>>

Polys == << <<2, -3, 1, 1>>,     \* a cubic
            <<5, 2, 0, 0>>,      \* linear: must be reproduced exactly
            <<1, 0, -2, 0>>,     \* quadratic
            <<-4, 1, 3, -1>> >>  \* another cubic
Poly == Polys[PolyId]
\* node spacing (resolution) per axis in quarters of a length unit: the axes have different resolutions, the lattice of
\* axis k has N cells of width Spacing[k] / 4; everything below is in lattice indices
Spacing == <<4, 2, 1>>
\* where the caching area sits: with its lower corner at the origin of the coordinates, or displaced (in quarters of a length
\* unit per axis); everything below is in lattice indices and holds for either placement
Origins == [origin |-> <<0, 0, 0>>, offset |-> <<-15, 10, 400>>, uneven |-> <<4, -8, 2>>]
\* cells per axis beyond N: on the "uneven" placement the axes have N, N + 1 and N + 3 cells, so that the node spacings differ
\* also relative to the extent of the area (the classes work in coordinates normalised over the area)
ExtraCells == [origin |-> <<0, 0, 0>>, offset |-> <<0, 0, 0>>, uneven |-> <<0, 1, 3>>]
\* function_boundaries handed to the constructor (quarters of a unit): none; a range containing every value of the function;
\* a range the function exceeds; a degenerate range (min = max, which the classes accept).  The bounds only rescale the
\* cached values internally: every result below is the same for each of them.
Bounds == [wide |-> <<-28, 52>>, exceeded |-> <<2, 4>>, degenerate |-> <<8, 8>>]
\* the lattice the classes build from a requested resolution (quarters of a unit): int(extent / resolution) cells, but never
\* fewer than one - a resolution coarser than the extent of the area along an axis gives a single cell there, whose nodes are
\* the two ends of the range; the node spacing is extent / cells (the requested resolution only when it divides the extent)
LatticeExtents == {2, 4, 10, 12}
LatticeResolutions == {1, 3, 4, 5, 16}
LatticeCells(e, r) == IF e \div r < 1 THEN 1 ELSE e \div r
LatticeCases == {[extent |-> e, res |-> r, cells |-> LatticeCells(e, r)] : e \in LatticeExtents, r \in LatticeResolutions}
ASSUME \A c \in LatticeCases : c.cells >= 1 /\ c.cells * c.res <= (IF c.res > c.extent THEN c.res ELSE c.extent)
ASSUME PrintT(ToJson([spacing |-> Spacing, origins |-> Origins, extracells |-> ExtraCells, bounds |-> Bounds, lattice |-> LatticeCases]))
Axis == 0..(N - 1)
Cells == IF Dim = 1 THEN {<<i>> : i \in Axis} ELSE IF Dim = 2 THEN {<<i, j>> : i \in Axis, j \in Axis} ELSE {<<i, j, k>> : i \in Axis, j \in Axis, k \in Axis}
St(i) == (i - 1)..(i + 2)
Stencil(c) == IF Dim = 1 THEN {<<u>> : u \in St(c[1])}
              ELSE IF Dim = 2 THEN {<<u, v>> : u \in St(c[1]), v \in St(c[2])}
              ELSE {<<u, v, w>> : u \in St(c[1]), v \in St(c[2]), w \in St(c[3])}
\* quarter positions inside a cell (t = q/4 per axis); 0 is the lower node
Quarters == 0..3
Outside == {"below", "above"}

\* lexicographic order of node tuples, as the nested loops of the code visit them
Less(a, b) == \E i \in 1..Dim : a[i] < b[i] /\ \A j \in 1..(i - 1) : a[j] = b[j]
RECURSIVE SortNodes(_)
SortNodes(S) == IF S = {} THEN <<>> ELSE LET m == CHOOSE x \in S : \A y \in S \ {x} : Less(x, y) IN <<m>> \o SortNodes(S \ {m})

\* --- exact 1-D interpolant, scaled by 128 (node spacing 1)
F(x) == Poly[1] + Poly[2] * x + Poly[3] * x * x + Poly[4] * x * x * x
\* Hermite basis at t = q/4, times 64: h00 = 2t^3-3t^2+1, h10 = t^3-2t^2+t, h01 = -2t^3+3t^2, h11 = t^3-t^2
H00(q) == 2 * q * q * q - 3 * 4 * q * q + 64
H10(q) == q * q * q - 2 * 4 * q * q + 16 * q
H01(q) == -2 * q * q * q + 3 * 4 * q * q
H11(q) == q * q * q - 4 * q * q
\* 128 * p(c + q/4) with slopes m1 = (f(c+1) - f(c-1))/2, m2 = (f(c+2) - f(c))/2
Interp128(c, q) == 2 * H00(q) * F(c) + H10(q) * (F(c + 1) - F(c - 1)) + 2 * H01(q) * F(c + 1) + H11(q) * (F(c + 2) - F(c))
\* 64 * f(c + q/4)
F64(c, q) == 64 * Poly[1] + 16 * Poly[2] * (4 * c + q) + 4 * Poly[3] * (4 * c + q) * (4 * c + q) + Poly[4] * (4 * c + q) * (4 * c + q) * (4 * c + q)

Init == sampled = {} /\ calculated = {} /\ hist = <<>>
Log(e) == hist' = Append(hist, e)

\* f_cached(point inside cell c at quarter offsets q)
Eval(c, q) ==
    LET new == IF c \in calculated THEN {} ELSE Stencil(c) \ sampled IN
    /\ sampled' = sampled \cup new
    /\ calculated' = calculated \cup {c}
    /\ Log([op |-> "eval", c |-> c, q |-> q, asks |-> SortNodes(new),
            value128 |-> IF Dim = 1 THEN Interp128(c[1], q[1]) ELSE 0])

\* a point outside the caching area: ValueError, or the wrapped function is called directly; the cache is untouched
EvalOutside(side) ==
    /\ UNCHANGED <<sampled, calculated>>
    /\ Log([op |-> "outside", side |-> side])

\* evaluation points strictly inside a cell (the code shifts its nodes by 1e-7, so a point exactly on a node has no definite cell)
QTuples == IF Dim = 1 THEN {<<a>> : a \in 1..3} ELSE IF Dim = 2 THEN {<<a, b>> : a \in {1, 2}, b \in {2, 3}} ELSE {<<1, 2, 3>>, <<3, 1, 2>>}
NextStep == \/ \E c \in Cells, q \in QTuples : Eval(c, q)
            \/ \E s \in Outside : EvalOutside(s)
Next == Len(hist) < MaxHist /\ NextStep
Spec == Init /\ [][Next]_vars

-----------------------------------------------------------------------------
\* every node is requested at most once in a behaviour
Asked == [i \in 1..Len(hist) |-> IF hist[i].op = "eval" THEN hist[i].asks ELSE <<>>]
RECURSIVE Flatten(_)
Flatten(ss) == IF ss = <<>> THEN <<>> ELSE Head(ss) \o Flatten(Tail(ss))
AskedOnce == LET a == Flatten(Asked) IN \A i, j \in 1..Len(a) : i # j => a[i] # a[j]
\* a fixed polynomial only uses sampled nodes
CalculatedNeedsStencil == \A c \in calculated : Stencil(c) \subseteq sampled
\* history independence on the model: the value depends on the point only
ValueIsFunctionOfPoint == \A i, j \in 1..Len(hist) :
    (hist[i].op = "eval" /\ hist[j].op = "eval" /\ hist[i].c = hist[j].c /\ hist[i].q = hist[j].q) => hist[i].value128 = hist[j].value128
\* the interpolant takes the function's value at the nodes, reproduces linear functions exactly, and for cubics the error is
\* bounded by (5/32) h^2 max|f''| over the stencil (h = 1):  |128 p - 2*64 f| <= 128 * (5/32) * max|f''|
Abs(x) == IF x < 0 THEN -x ELSE x
F2(x) == 2 * Poly[3] + 6 * Poly[4] * x
MaxF2(c) == LET S == {Abs(F2(x)) : x \in (c - 1)..(c + 2)} IN CHOOSE m \in S : \A y \in S : y <= m
InterpolantProperties == Dim = 1 => \A c \in Axis, q \in Quarters :
    /\ (q = 0 => Interp128(c, 0) = 128 * F(c))
    /\ (Poly[3] = 0 /\ Poly[4] = 0 => Interp128(c, q) = 2 * F64(c, q))
    /\ Abs(Interp128(c, q) - 2 * F64(c, q)) <= 20 * MaxF2(c)

\* the nodes Interp128(c, .) reads (values at c, c+1; slopes from c-1..c+1 and c..c+2) are exactly the cell's stencil
InterpNodes(c) == {c - 1, c, c + 1, c + 2}
InterpolantReadsItsStencil == Dim = 1 => \A c \in Axis : {<<u>> : u \in InterpNodes(c)} = Stencil(<<c>>)

View == <<sampled, calculated>>
Emit == PrintT(ToJson([h |-> hist']))
=============================================================================
