---------------------------- MODULE Composition ----------------------------
(***************************************************************************)
(* C01 / C05, plasma composition (cherab/core/plasma/node.pyx: Composition,  *)
(* Plasma.z_effective, Plasma.ion_density).  The composition holds at most   *)
(* one Species per (element, charge) key, in insertion order; set() replaces *)
(* everything (of duplicates in the list the last one wins, at the position  *)
(* of the first), add() replaces the species of the same key in place or     *)
(* appends, clear() empties.  Every successful mutator notifies exactly      *)
(* once; a refused call changes nothing and does not notify.                 *)
(*   Z_eff = sum n Z^2 / sum n Z  over the ionised species (ValueError when  *)
(*   that sum is empty or zero),   n_ion = sum n over the ionised species.   *)
(* A species object is identified by <<key, id>>; its density is Dens(id).   *)
(***************************************************************************)
EXTENDS Integers, Sequences, FiniteSets, TLC, Json

CONSTANTS MaxHist

\* keys: <<element, charge>>
Keys == {<<"d", 0>>, <<"d", 1>>, <<"c", 6>>}
Ids == 1..2
Dens(k, id) == IF k = <<"d", 0>> THEN 5 * id ELSE IF k = <<"d", 1>> THEN 3 * id - 3 ELSE 2 * id      \* d1 object 1 has zero density
Objs == {<<k, id>> : k \in Keys, id \in Ids}

VARIABLES order,      \* Seq(Keys) without repetition: iteration order
          held,       \* [Keys -> 0..2]: id of the species object held for the key (0: none)
          notified,   \* number of notifications so far
          outcome, hist,
          touched     \* ghost: has anything been read since the last successful change (so that "read, then change" histories are explored)
vars == <<order, held, notified, outcome, hist, touched>>

Rng(s) == {s[i] : i \in 1..Len(s)}
Init == order = <<>> /\ held = [k \in Keys |-> 0] /\ notified = 0 /\ outcome = "ok" /\ hist = <<>> /\ touched = FALSE
Log(e) == hist' = Append(hist, e)

\* keys of a list in order of first appearance
RECURSIVE Firsts(_)
Firsts(sq) == IF sq = <<>> THEN <<>> ELSE LET r == Firsts(SubSeq(sq, 1, Len(sq) - 1))  k == sq[Len(sq)][1]
                                          IN IF k \in Rng(r) THEN r ELSE Append(r, k)
LastId(sq, k) == LET idx == {i \in 1..Len(sq) : sq[i][1] = k} IN IF idx = {} THEN 0 ELSE sq[CHOOSE i \in idx : \A j \in idx : j <= i][2]

SetList(sq) == /\ order' = Firsts(sq)
               /\ held' = [k \in Keys |-> LastId(sq, k)]
               /\ notified' = notified + 1 /\ outcome' = "ok" /\ touched' = FALSE
               /\ Log([op |-> "set", arg |-> sq])
Add(o) == /\ order' = IF o[1] \in Rng(order) THEN order ELSE Append(order, o[1])
          /\ held' = [held EXCEPT ![o[1]] = o[2]]
          /\ notified' = notified + 1 /\ outcome' = "ok" /\ touched' = FALSE
          /\ Log([op |-> "add", arg |-> <<o>>])
Clear == /\ order' = <<>> /\ held' = [k \in Keys |-> 0]
         /\ notified' = notified + 1 /\ outcome' = "ok" /\ touched' = FALSE /\ Log([op |-> "clear", arg |-> <<>>])
\* refused calls: set() of a list holding something that is not a Species (TypeError), add(None) (ValueError)
Refused(which) == /\ UNCHANGED <<order, held, notified, touched>>
                  /\ outcome' = (IF which = "set_wrong_type" THEN "TypeError" ELSE "ValueError")
                  /\ Log([op |-> which, arg |-> <<>>])
Read == UNCHANGED <<order, held, notified>> /\ outcome' = "ok" /\ touched' = TRUE /\ Log([op |-> "read", arg |-> <<>>])

Lists == {<<>>} \cup {<<a>> : a \in Objs} \cup {<<a, b>> : a \in Objs, b \in Objs}
         \cup {<< <<<<"d", 1>>, 2>>, <<<<"c", 6>>, 1>>, <<<<"d", 1>>, 1>> >>, << <<<<"c", 6>>, 2>>, <<<<"d", 0>>, 1>>, <<<<"d", 1>>, 2>> >>}
NextStep == \/ \E sq \in Lists : SetList(sq)
            \/ \E o \in Objs : Add(o)
            \/ Clear
            \/ \E w \in {"set_wrong_type", "add_none"} : Refused(w)
            \/ Read
Next == Len(hist) < MaxHist /\ NextStep
Spec == Init /\ [][Next]_vars

\* ---- observables
Present == {k \in Keys : held[k] # 0}
Ions == {k \in Present : k[2] > 0}
RECURSIVE SumOver(_, _)
SumOver(f, S) == IF S = {} THEN 0 ELSE LET k == CHOOSE x \in S : TRUE IN f[k] + SumOver(f, S \ {k})
NZ  == SumOver([k \in Keys |-> Dens(k, held[k]) * k[2]], Ions)
NZ2 == SumOver([k \in Keys |-> Dens(k, held[k]) * k[2] * k[2]], Ions)
NIon == SumOver([k \in Keys |-> Dens(k, held[k])], Ions)
ZEff == IF NZ2 = 0 THEN <<"ValueError">> ELSE <<NZ2, NZ>>

OrderMatchesHeld == Rng(order) = Present /\ \A i, j \in 1..Len(order) : i # j => order[i] # order[j]
\* Z_eff lies between the smallest and the largest ion charge with non-zero density
ZEffBetweenCharges == NZ2 # 0 => LET zs == {k[2] : k \in {kk \in Ions : Dens(kk, held[kk]) > 0}} IN
                                   \A z \in zs : (\A y \in zs : z <= y) => z * NZ <= NZ2
NotifyOncePerMutation == [][notified' = notified + (IF hist' # hist /\ hist'[Len(hist')].op \in {"set", "add", "clear"} THEN 1 ELSE 0)]_vars

View == <<order, held, notified, outcome, touched>>
Emit == PrintT(ToJson([h |-> hist', order |-> order', held |-> {<<k, held'[k]>> : k \in Keys}, notified |-> notified', outcome |-> outcome',
                       zeff |-> ZEff', nion |-> NIon', dens |-> {<<o, Dens(o[1], o[2])>> : o \in Objs}]))
=============================================================================
