------------------------------ MODULE Calibrate ------------------------------
(***************************************************************************)
(* C16, calibration clause: Spectrometer.calibrate(spectrum) must return, for *)
(* every pixel, the mean of the spectrum over the pixel, i.e. value x width = *)
(* integral of the spectrum over the pixel.  The spectrum is raysect's:       *)
(* samples at bin centres, linear in between, constant beyond the first/last  *)
(* centre.  Lengths are integer *ticks* (T ticks per nm); bin width W is an   *)
(* even number of ticks so that bin centres are ticks too and the integral of *)
(* the piecewise-linear function is an exact rational with denominator 2W.    *)
(***************************************************************************)
EXTENDS Integers, Sequences, FiniteSets, TLC, Json
I == INSTANCE Instrument WITH Kind <- "spectrometer", MaxHist <- 0, par <- 0, cache <- 0, used <- 0, outcome <- 0, hist <- 0

T == 4                           \* ticks per nm
VARIABLE c                       \* the case: [lay, W, pad, variant]

Cases == [lay : 1..5, W : {2, 4, 8}, pad : {0, 1, 3}, variant : 1..3]

Edges(lay) == I!Layout(lay)        \* pixel edges in nm
InstrMin(lay) == I!SetMin({Edges(lay)[k][1] : k \in DOMAIN Edges(lay)})
InstrMax(lay) == I!SetMax({Edges(lay)[k][Len(Edges(lay)[k])] : k \in DOMAIN Edges(lay)})

\* source spectrum: starts pad ticks-quarters below the instrument range, n bins of W ticks covering it
SMin(cs) == InstrMin(cs.lay) * T - cs.pad * 2
NBins(cs) == I!CeilDiv(InstrMax(cs.lay) * T + cs.pad - SMin(cs), cs.W)
Sample(cs, i) == ((i * 7 + 3 * cs.variant) % 5) + ((i * cs.variant) % 3) * 2      \* i = 0..n-1, small non-negative integers
Node(cs, i) == SMin(cs) + i * cs.W + cs.W \div 2

\* W * f(t) at integer tick t
WF(cs, t) ==
    LET n == NBins(cs) IN
    IF t <= Node(cs, 0) THEN cs.W * Sample(cs, 0)
    ELSE IF t >= Node(cs, n - 1) THEN cs.W * Sample(cs, n - 1)
    ELSE LET i == (t - Node(cs, 0)) \div cs.W
         IN cs.W * Sample(cs, i) + (Sample(cs, i + 1) - Sample(cs, i)) * (t - Node(cs, i))

\* 2W * integral of f over [a, b] (ticks): trapezoids over unit tick intervals (no kink inside one)
RECURSIVE Int2W(_, _, _)
Int2W(cs, a, b) == IF a >= b THEN 0 ELSE WF(cs, a) + WF(cs, a + 1) + Int2W(cs, a + 1, b)

\* expected value*width per pixel, as <<numerator, denominator>> in nm units: integral_ticks / T
Expected(cs) == [k \in DOMAIN Edges(cs.lay) |->
                   [i \in 1..(Len(Edges(cs.lay)[k]) - 1) |->
                      <<Int2W(cs, Edges(cs.lay)[k][i] * T, Edges(cs.lay)[k][i + 1] * T), 2 * cs.W * T>>]]

Init == c \in Cases
Next == UNCHANGED c
Spec == Init /\ [][Next]_c

\* the whole-range integral is the sum of the per-pixel integrals when pixels tile the range (layouts 1 and 3)
RECURSIVE SumSeq(_)
SumSeq(s) == IF s = <<>> THEN 0 ELSE s[1][1] + SumSeq(Tail(s))
Additive == c.lay \in {1, 3} => SumSeq(Expected(c)[1]) = Int2W(c, InstrMin(c.lay) * T, InstrMax(c.lay) * T)
\* a constant spectrum is preserved exactly
NonNegative == \A k \in DOMAIN Expected(c) : \A i \in DOMAIN Expected(c)[k] : Expected(c)[k][i][1] >= 0

EmitCase == PrintT(ToJson([case |-> c, smin |-> SMin(c), nbins |-> NBins(c), T |-> T,
                           samples |-> [i \in 1..NBins(c) |-> Sample(c, i - 1)], expected |-> Expected(c)]))
=============================================================================
