-------------------------- MODULE Trace_Repository --------------------------
(* Trace validation for C06: call sequences recorded from the real repository   *)
(* functions (mbt/c06_trace.py) must be behaviours of Repository.tla.  Every     *)
(* event carries the call and the read-back of the whole key universe projected *)
(* to value ids, so each step is checked against the spec action *and* its       *)
(* logged post-state.                                                            *)
EXTENDS Repository, IOUtils, TLCExt

Traces == JsonDeserialize(IOEnv.TRACE_FILE)

VARIABLES tid, l
tvars == <<store, hist, probe, tid, l>>

Ev == Traces[tid][l]
Rng(sq) == {sq[i] : i \in 1..Len(sq)}
PostOK == Abs(store') = {<<p[1], p[2]>> : p \in Rng(Ev.post)}
Step == l <= Len(Traces[tid]) /\ l' = l + 1 /\ UNCHANGED <<tid, probe>>

TraceInit == tid \in 1..Len(Traces) /\ l = 1 /\ Init

TWrite   == Step /\ Ev.op = "write"  /\ Ev.k \in AllKeys /\ Write(Ev.k, Ev.v, Ev.api, Ev.sp) /\ PostOK
TMulti   == Step /\ Ev.op = "multi"  /\
            LET W == {p[1] : p \in Rng(Ev.w)}
                w == [k \in W |-> (CHOOSE p \in Rng(Ev.w) : p[1] = k)[2]]
            IN MultiUpdate(Ev.f, W, w) /\ PostOK
TRejMulti == Step /\ Ev.op = "rejmulti" /\
            LET W == {p[1] : p \in Rng(Ev.w)}
                w == [k \in W |-> (CHOOSE p \in Rng(Ev.w) : p[1] = k)[2]]
            IN \E S \in SUBSET W : RejectedMulti(Ev.f, W, w, S) /\ PostOK
TReject  == Step /\ Ev.op = "reject" /\ Ev.kind \notin Hows /\ Reject(Ev.k, Ev.kind, Ev.api) /\ PostOK
\* (the exploration bound inside RejectField does not apply to recorded traces: a rejected write changes nothing wherever it occurs)
TRejectField == Step /\ Ev.op = "reject" /\ Ev.kind \in Hows /\ Ev.fld \in Fields(Ev.k[1]) /\ UNCHANGED store
                /\ hist' = Append(hist, [op |-> "reject", api |-> Ev.api, k |-> Ev.k, kind |-> Ev.kind, fld |-> Ev.fld]) /\ PostOK

TInstall == Step /\ Ev.op = "install" /\ Ev.front \in InstFronts /\ Ev.s \in Species /\ Ev.d \in Donors /\ Install(Ev.front, Ev.s, Ev.d) /\ PostOK

TraceNext == TWrite \/ TMulti \/ TRejMulti \/ TReject \/ TRejectField \/ TInstall
TraceSpec == TraceInit /\ [][TraceNext]_tvars

\* progress report: the harness accepts trace tid iff some state reports l = Len + 1
Progress == PrintT(ToJson([tid |-> tid, l |-> l, n |-> Len(Traces[tid])]))
=============================================================================
