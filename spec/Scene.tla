------------------------------- MODULE Scene -------------------------------
(***************************************************************************)
(* C01 - a scene of one Plasma, one Beam (with SingleRayAttenuator and beam  *)
(* emission models) and one Laser, as configuration + lazily/eagerly cached  *)
(* derived state kept coherent by the observer wiring of                     *)
(*   cherab/core/utility/notify.py, plasma/node.pyx, beam/node.pyx,          *)
(*   laser/node.pyx, model/attenuator/singleray.pyx, model/*/*.pyx.          *)
(* Every public mutator is one action: assign, fire the notifiers the setter *)
(* fires, run the direct reconfiguration calls the setter makes; notifier    *)
(* callbacks clear lazily filled caches, rebuild eager ones and may fire     *)
(* further notifiers (composition -> plasma, attenuator -> beam).  The spec  *)
(* is the *intended* wiring: NoStale must hold on it, and TLC checks that    *)
(* the wiring reaches every cache that depends on the changed parameter.     *)
(***************************************************************************)
EXTENDS Integers, Sequences, FiniteSets, TLC, Json

CONSTANTS
  \* @type: Int;
  MaxHist,
  \* @type: Set(Str);
  Inits,
  \* @type: Set(Str);
  MutParams,
  \* @type: Set(Str);
  ObsKinds

VARIABLES
  \* [Params -> value id]: what a scene built from scratch would be given
  \* @type: Str -> Int;
  cfg,
  \* [Caches -> BOOLEAN]: is the piece of derived state currently held (computed and not invalidated since)
  \* @type: Str -> Bool;
  filled,
  \* [Caches -> projection of the configuration it was computed from] (all zero while not held)
  \* @type: Str -> (Str -> Int);
  at,
  \* @type: Seq({op: Str, p: Str, v: Int, via: Str, fired: Set(Str), ops: Set(Str), k: Str, observed: Bool});
  hist
vars == <<cfg, filled, at, hist>>

ModelParams == {"P_models", "B_models", "L_models"}
Params == {"P_bfield", "P_edist", "P_comp", "P_adata", "P_geom", "P_geomT", "P_integ", "P_models", "P_xf", "P_parent", "N_xf",
           "B_energy", "B_power", "B_temp", "B_element", "B_divx", "B_divy", "B_length", "B_sigma", "B_adata", "B_att", "A_step",
           "A_clampZero", "A_clampSigma", "B_models", "B_integ", "B_xf", "B_parent", "M_cxline",
           "L_profile", "LP_energy", "LP_length", "LP_radius", "L_spectrum", "L_models", "L_integ", "L_importance", "L_xf",
           "B_plasma", "L_plasma"}
\* re-pointing beam / laser at the plasma they already reference: a public assignment that re-subscribes and reconfigures
Repoint == {"B_plasma", "L_plasma"}
Values(p) == IF p \in ModelParams \cup {"P_comp"} THEN 1..3 ELSE IF p \in Repoint THEN {1} ELSE 1..2      \* model lists and the composition: two different lists and the empty list (3)


Caches == {"pm", "pmat", "att", "bm", "bgeom", "lseg", "lmat"}
\* what each piece of derived state is a function of: the parameters it reads (the ancestor transform only under the node)
\* @type: (Str -> Int) => Set(Str);
PlasmaPlaceP(c) == {"P_xf", "P_parent"} \cup (IF c["P_parent"] = 2 THEN {"N_xf"} ELSE {})
\* @type: (Str -> Int) => Set(Str);
BeamPlaceP(c)   == {"B_xf", "B_parent"} \cup (IF c["B_parent"] = 2 THEN {"N_xf"} ELSE {})
\* @type: (Str, Str -> Int) => Set(Str);
DepP(k, c) ==
  CASE k = "pm"    -> {"P_comp", "P_adata", "P_models"}                                  \* species, rates, wavelengths, line shapes of plasma models
    [] k = "pmat"  -> {"P_models", "P_adata", "P_integ", "P_geom", "P_geomT"}             \* attached primitive + PlasmaMaterial
    [] k = "att"   -> BeamPlaceP(c) \cup PlasmaPlaceP(c) \cup {"B_length", "A_step", "B_att", "B_energy", "B_power",
                        "B_element", "B_divx", "B_divy", "P_comp", "B_adata"}            \* SingleRayAttenuator._density/_stopping_data
    [] k = "bm"    -> {"P_comp", "B_adata", "B_element", "B_models", "M_cxline"}          \* beam model caches
    [] k = "bgeom" -> {"B_length", "B_sigma", "B_divx", "B_divy", "A_clampSigma", "B_models", "B_integ", "B_adata"}
    [] k = "lseg"  -> {"L_profile", "LP_length", "LP_radius"}                            \* laser segment primitives
    [] k = "lmat"  -> {"L_models", "L_spectrum", "L_profile", "LP_length", "LP_radius", "L_integ", "L_importance",
                        "L_xf"} \cup PlasmaPlaceP(c)                                     \* LaserMaterial per segment (caches transforms)
\* the projection of configuration c a piece of derived state is computed from (other parameters masked to 0)
\* @type: (Str, Str -> Int) => (Str -> Int);
Proj(k, c) == [p \in Params |-> IF p \in DepP(k, c) THEN c[p] ELSE 0]
Zero == [p \in Params |-> 0]
Eager == {"pmat", "bgeom", "lseg", "lmat"}      \* rebuilt inside the setter; the others are filled by the next observation

Notifiers == {"plasma", "comp", "pmodels", "beam", "bmodels", "att", "profile"}
\* direct reconfiguration calls a setter makes
Ops == {"pconf", "bconf", "aconf", "achange", "bmchange", "lconfmat", "lconfgeo"}

\* which notifiers a setter fires / which direct calls it makes (Appendix A of DESIGN.md)
\* @type: (Str, Str -> Int) => Set(Str);
Fires(p, c) ==
  CASE p \in {"P_bfield", "P_edist", "P_xf", "P_parent"} -> {"plasma"}
    [] p = "P_comp"   -> {"comp"}
    [] p = "P_models" -> {"pmodels"}
    [] p = "N_xf"     -> (IF c["P_parent"] = 2 THEN {"plasma"} ELSE {}) \cup (IF c["B_parent"] = 2 THEN {"beam"} ELSE {})
    [] p \in {"B_energy", "B_power", "B_temp", "B_element", "B_divx", "B_divy", "B_length", "B_sigma", "B_att", "B_xf", "B_parent"} -> {"beam"}
    [] p \in {"A_step", "A_clampSigma"} -> {"att"}
    [] p = "B_models" -> {"bmodels"}
    [] p \in {"LP_length", "LP_radius"} -> {"profile"}
    [] OTHER -> {}
Direct(p) ==
  CASE p \in {"P_adata", "P_geom", "P_geomT", "P_integ"} -> {"pconf"}
    [] p \in {"B_length", "B_sigma", "B_divx", "B_divy", "A_clampSigma", "B_integ"} -> {"bconf"}
    [] p = "B_adata"  -> {"bconf", "aconf"}
    [] p = "B_att"    -> {"aconf"}
    [] p = "B_plasma" -> {"bconf", "aconf"}
    [] p = "A_step"   -> {"achange"}
    [] p = "M_cxline" -> {"bmchange"}
    [] p = "L_profile" -> {"lconfgeo"}
    [] p \in {"L_spectrum", "L_importance", "L_models", "L_integ", "L_xf", "L_plasma"} -> {"lconfmat"}
    [] OTHER -> {}

\* callbacks registered on each notifier, as [cascade: notifiers fired, ops: reconfiguration run, clear: caches cleared]
Listen(n) ==
  CASE n = "plasma"  -> [cascade |-> {}, ops |-> {"lconfmat"}, clear |-> {"pm", "bm", "att"}]   \* PlasmaModel/BeamModel/attenuator _change, Laser._plasma_changed
    [] n = "comp"    -> [cascade |-> {"plasma"}, ops |-> {}, clear |-> {}]                      \* Plasma._modified
    [] n = "pmodels" -> [cascade |-> {}, ops |-> {"pconf"}, clear |-> {}]                       \* Plasma._configure_geometry
    [] n = "beam"    -> [cascade |-> {}, ops |-> {}, clear |-> {"bm", "att"}]                   \* BeamModel._change, BeamAttenuator._change
    [] n = "bmodels" -> [cascade |-> {}, ops |-> {"bconf"}, clear |-> {}]                       \* Beam._configure_geometry
    [] n = "att"     -> [cascade |-> {"beam"}, ops |-> {}, clear |-> {}]                        \* Beam._modified
    [] n = "profile" -> [cascade |-> {}, ops |-> {"lconfgeo"}, clear |-> {}]                    \* Laser.configure_geometry
OpEffect(o) ==
  CASE o = "pconf"    -> [rebuild |-> {"pmat"}, clear |-> {"pm"}]       \* new PlasmaMaterial sets model.plasma / model.atomic_data -> _change
    [] o = "bconf"    -> [rebuild |-> {"bgeom"}, clear |-> {"bm"}]      \* new bounding primitive + BeamMaterial -> model setters -> _change
    [] o = "aconf"    -> [rebuild |-> {}, clear |-> {"att"}]            \* attenuator.beam/plasma/atomic_data = ... -> _change
    [] o = "achange"  -> [rebuild |-> {}, clear |-> {"att"}]
    [] o = "bmchange" -> [rebuild |-> {}, clear |-> {"bm"}]
    [] o = "lconfmat" -> [rebuild |-> {"lmat"}, clear |-> {}]
    [] o = "lconfgeo" -> [rebuild |-> {"lseg", "lmat"}, clear |-> {}]

\* notifiers fired transitively (cascades are at most one level deep in this wiring, two rounds suffice)
Close(N) == LET N1 == N \cup UNION {Listen(n).cascade : n \in N} IN N1 \cup UNION {Listen(n).cascade : n \in N1}
\* @type: (Str, Str -> Int) => Set(Str);
OpsRun(p, c) == Direct(p) \cup UNION {Listen(n).ops : n \in Close(Fires(p, c))}
\* @type: (Str, Str -> Int) => Set(Str);
Cleared(p, c) == UNION {Listen(n).clear : n \in Close(Fires(p, c))} \cup UNION {OpEffect(o).clear : o \in OpsRun(p, c)}
\* @type: (Str, Str -> Int) => Set(Str);
Rebuilt(p, c) == UNION {OpEffect(o).rebuild : o \in OpsRun(p, c)}

\* the owners (public classes) of the callbacks registered on a notifier: used by trace validation.  Only the owner is named:
\* how the owner's methods are called is the implementation's business
\* @type: (Str, Str -> Int) => Set(Str);
CallbackNames(n, c) ==
  CASE n = "plasma"  -> {"BeamAttenuator", "Laser"}
                        \cup (IF c["P_models"] # 3 THEN {"PlasmaModel"} ELSE {})
                        \cup (IF c["B_models"] # 3 THEN {"BeamModel"} ELSE {})
    [] n = "comp"    -> {"Plasma"}
    [] n = "pmodels" -> {"Plasma"}
    [] n = "beam"    -> {"BeamAttenuator"} \cup (IF c["B_models"] # 3 THEN {"BeamModel"} ELSE {})
    [] n = "bmodels" -> {"Beam"}
    [] n = "att"     -> {"Beam"}
    [] n = "profile" -> {"Laser"}
\* callbacks that must be notified when parameter p is set (c = configuration after the assignment)
\* @type: (Str, Str -> Int) => Set(Str);
Required(p, c) == UNION {CallbackNames(n, c) : n \in Close(Fires(p, c))}

FreshFilled    == [k \in Caches |-> k \in Eager]
ObservedFilled == [k \in Caches |-> TRUE]
\* @type: (Str -> Bool, Str -> Int) => (Str -> (Str -> Int));
AtFor(fl, c)   == [k \in Caches |-> IF fl[k] THEN Proj(k, c) ELSE Zero]
\* history entries are records with a fixed set of fields (unused ones keep their defaults)
\* @type: () => {op: Str, p: Str, v: Int, via: Str, fired: Set(Str), ops: Set(Str), k: Str, observed: Bool};
E0 == [op |-> "", p |-> "", v |-> 0, via |-> "", fired |-> {}, ops |-> {}, k |-> "", observed |-> FALSE]
AllOnes == [p \in Params |-> 1]

Init == /\ cfg = AllOnes
        /\ \E i \in Inits : filled = IF i = "fresh" THEN FreshFilled ELSE ObservedFilled
        /\ at = AtFor(filled, cfg)
        /\ hist = <<[E0 EXCEPT !.op = "init", !.observed = filled["att"]]>>

Log(e) == hist' = Append(hist, e)

\* <object>.<attribute> = value (re-assigning the current value is a supported change too: new objects, same configuration)
\* except Node.parent, where raysect returns early when the parent is already the one assigned
\* public front-ends that reach the same configuration value: attribute assignment, <manager>.set(list),
\* <manager>.clear() followed by .add(x) per element, and (composition only) .add(x) per element, which replaces species in place
\* (Laser.models hands out a copy of its list: assignment is its only front-end)
Vias(p) == IF p \in {"P_models", "B_models"} THEN {"assign", "set", "clear_add"}
           ELSE IF p = "P_comp" THEN {"set", "clear_add", "add"} ELSE {"assign"}
\* (adding the species of the empty composition one by one adds nothing: not a way to reach it)
ViaOK(p, v, via) == ~(p = "P_comp" /\ v = 3 /\ via = "add")
NoOpWhenSame == {"P_parent", "B_parent"}
IsNoOp(p, v) == p \in NoOpWhenSame /\ cfg[p] = v
SetCore(p, v) ==
    /\ cfg' = [cfg EXCEPT ![p] = v]
    /\ filled' = IF IsNoOp(p, v) THEN filled
                 ELSE [k \in Caches |-> IF k \in Rebuilt(p, cfg') THEN TRUE ELSE IF k \in Cleared(p, cfg') THEN FALSE ELSE filled[k]]
    /\ at' = IF IsNoOp(p, v) THEN at
             ELSE [k \in Caches |-> IF k \in Rebuilt(p, cfg') THEN Proj(k, cfg') ELSE IF k \in Cleared(p, cfg') THEN Zero ELSE at[k]]
Set(p, v, via) ==
    /\ SetCore(p, v)
    /\ Log([E0 EXCEPT !.op = "set", !.p = p, !.v = v, !.via = via, !.fired = IF IsNoOp(p, v) THEN {} ELSE Close(Fires(p, cfg')),
                      !.ops = IF IsNoOp(p, v) THEN {} ELSE OpsRun(p, cfg')])

\* an observation fills the lazily computed state it needs from the *current* configuration
Touches(k) == CASE k = "plasma_ray" -> {"pm"}
                [] k = "beam_ray" -> {"pm", "bm", "att"}
                [] k = "laser_ray" -> {"pm", "bm", "att"}
                [] k = "beam_density" -> {"att"}
                [] k = "all" -> {"pm", "bm", "att"}          \* every sight line and the beam density at once
                [] OTHER -> {}
ObserveCore(k) ==
    /\ filled' = [c \in Caches |-> filled[c] \/ c \in Touches(k)]
    /\ at' = [c \in Caches |-> IF c \in Touches(k) /\ ~filled[c] THEN Proj(c, cfg) ELSE at[c]]
    /\ UNCHANGED cfg
Observe(k) ==
    /\ ObserveCore(k)
    /\ Log([E0 EXCEPT !.op = "observe", !.k = k])

NextStep == \/ \E p \in MutParams : \E v \in Values(p) : \E via \in Vias(p) : ViaOK(p, v, via) /\ Set(p, v, via)
            \/ \E k \in ObsKinds : Observe(k)
Next == Len(hist) <= MaxHist /\ NextStep
Spec == Init /\ [][Next]_vars

\* C01 on the model: whatever is cached was computed from the configuration we are in now,
\* hence every observation is a function of the final configuration only
NoStale == \A k \in Caches : filled[k] => at[k] = Proj(k, cfg)
EagerFilled == \A k \in Eager : filled[k]
\* together with the shape of the state these two are inductive: checked for histories of any length with Apalache (MC_Scene.tla)
Shape == DOMAIN cfg = Params /\ DOMAIN filled = Caches /\ DOMAIN at = Caches /\ \A k \in Caches : DOMAIN at[k] = Params
IndInv == Shape /\ NoStale /\ EagerFilled /\ (\A p \in Params : cfg[p] \in Values(p)) /\ (\A k \in Caches : ~filled[k] => at[k] = Zero)
\* observations never change the configuration (action property)
ObserveIsPure == [][hist'[Len(hist')].op = "observe" => cfg' = cfg]_vars

View == <<cfg, filled, at>>
Emit == PrintT(ToJson([h |-> hist', cfg |-> cfg']))
=============================================================================
