------------------------------- MODULE Scene -------------------------------
(***************************************************************************)
(* C01 - a scene of one Plasma, one Beam (with SingleRayAttenuator and beam  *)
(* emission models) and one Laser, as configuration + lazily/eagerly cached  *)
(* derived state kept coherent by the observer wiring of                     *)
(*   cherab/core/utility/notify.py, plasma/node.pyx, beam/node.pyx,          *)
(*   laser/node.pyx, model/attenuator/singleray.pyx, model/*/*.pyx.          *)
(* Every public mutator is one action: assign, fire the notifiers the setter *)
(* fires, run the direct reconfiguration calls the setter makes; notifier    *)
(* callbacks clear lazily filled caches, rebuild eager ones and may fire     *)
(* further notifiers (composition -> plasma, attenuator -> beam).  The spec  *)
(* is the *intended* wiring: NoStale must hold on it, and TLC checks that    *)
(* the wiring reaches every cache that depends on the changed parameter.     *)
(***************************************************************************)
EXTENDS Integers, Sequences, FiniteSets, TLC, Json

CONSTANTS MaxHist, Inits, MutParams, ObsKinds

VARIABLES cfg,     \* [Params -> value id]: what a scene built from scratch would be given
          cache,   \* [Caches -> <<>> or <<projection of cfg it was computed from>>]
          hist
vars == <<cfg, cache, hist>>

ModelParams == {"P_models", "B_models", "L_models"}
Params == {"P_bfield", "P_edist", "P_comp", "P_adata", "P_geom", "P_geomT", "P_integ", "P_models", "P_xf", "P_parent", "N_xf",
           "B_energy", "B_power", "B_temp", "B_element", "B_divx", "B_divy", "B_length", "B_sigma", "B_adata", "B_att", "A_step",
           "A_clampZero", "A_clampSigma", "B_models", "B_integ", "B_xf", "B_parent", "M_cxline",
           "L_profile", "LP_energy", "LP_length", "LP_radius", "L_spectrum", "L_models", "L_integ", "L_importance", "L_xf",
           "B_plasma", "L_plasma"}
\* re-pointing beam / laser at the plasma they already reference: a public assignment that re-subscribes and reconfigures
Repoint == {"B_plasma", "L_plasma"}
Values(p) == IF p \in ModelParams THEN 1..3 ELSE IF p \in Repoint THEN {1} ELSE 1..2      \* model lists: two different lists and the empty list (3)

\* placement of plasma / beam relative to the world (ancestor transform matters only under the node)
PlasmaPlace(c) == <<c["P_xf"], c["P_parent"], IF c["P_parent"] = 2 THEN c["N_xf"] ELSE 0>>
BeamPlace(c)   == <<c["B_xf"], c["B_parent"], IF c["B_parent"] = 2 THEN c["N_xf"] ELSE 0>>

Caches == {"pm", "pmat", "att", "bm", "bgeom", "lseg", "lmat"}
\* what each piece of derived state is a function of
Proj(k, c) ==
  CASE k = "pm"    -> <<c["P_comp"], c["P_adata"], c["P_models"]>>                       \* species, rates, wavelengths, line shapes of plasma models
    [] k = "pmat"  -> <<c["P_models"], c["P_adata"], c["P_integ"], c["P_geom"], c["P_geomT"]>>   \* attached primitive + PlasmaMaterial
    [] k = "att"   -> <<BeamPlace(c), PlasmaPlace(c), c["B_length"], c["A_step"], c["B_att"], c["B_energy"], c["B_power"],
                        c["B_element"], c["B_divx"], c["B_divy"], c["P_comp"], c["B_adata"]>>      \* SingleRayAttenuator._density/_stopping_data
    [] k = "bm"    -> <<c["P_comp"], c["B_adata"], c["B_element"], c["B_models"], c["M_cxline"]>>  \* beam model caches
    [] k = "bgeom" -> <<c["B_length"], c["B_sigma"], c["B_divx"], c["B_divy"], c["A_clampSigma"], c["B_models"], c["B_integ"], c["B_adata"]>>
    [] k = "lseg"  -> <<c["L_profile"], c["LP_length"], c["LP_radius"]>>                  \* laser segment primitives
    [] k = "lmat"  -> <<c["L_models"], c["L_spectrum"], c["L_profile"], c["LP_length"], c["LP_radius"], c["L_integ"], c["L_importance"],
                        c["L_xf"], PlasmaPlace(c)>>                                       \* LaserMaterial per segment (caches transforms)
Eager == {"pmat", "bgeom", "lseg", "lmat"}      \* rebuilt inside the setter; the others are filled by the next observation

Notifiers == {"plasma", "comp", "pmodels", "beam", "bmodels", "att", "profile"}
\* direct reconfiguration calls a setter makes
Ops == {"pconf", "bconf", "aconf", "achange", "bmchange", "lconfmat", "lconfgeo"}

\* which notifiers a setter fires / which direct calls it makes (Appendix A of DESIGN.md)
Fires(p, c) ==
  CASE p \in {"P_bfield", "P_edist", "P_xf", "P_parent"} -> {"plasma"}
    [] p = "P_comp"   -> {"comp"}
    [] p = "P_models" -> {"pmodels"}
    [] p = "N_xf"     -> (IF c["P_parent"] = 2 THEN {"plasma"} ELSE {}) \cup (IF c["B_parent"] = 2 THEN {"beam"} ELSE {})
    [] p \in {"B_energy", "B_power", "B_temp", "B_element", "B_divx", "B_divy", "B_length", "B_sigma", "B_att", "B_xf", "B_parent"} -> {"beam"}
    [] p \in {"A_step", "A_clampSigma"} -> {"att"}
    [] p = "B_models" -> {"bmodels"}
    [] p \in {"LP_length", "LP_radius"} -> {"profile"}
    [] OTHER -> {}
Direct(p) ==
  CASE p \in {"P_adata", "P_geom", "P_geomT", "P_integ"} -> {"pconf"}
    [] p \in {"B_length", "B_sigma", "B_divx", "B_divy", "A_clampSigma", "B_integ"} -> {"bconf"}
    [] p = "B_adata"  -> {"bconf", "aconf"}
    [] p = "B_att"    -> {"aconf"}
    [] p = "B_plasma" -> {"bconf", "aconf"}
    [] p = "A_step"   -> {"achange"}
    [] p = "M_cxline" -> {"bmchange"}
    [] p = "L_profile" -> {"lconfgeo"}
    [] p \in {"L_spectrum", "L_importance", "L_models", "L_integ", "L_xf", "L_plasma"} -> {"lconfmat"}
    [] OTHER -> {}

\* callbacks registered on each notifier, as [cascade: notifiers fired, ops: reconfiguration run, clear: caches cleared]
Listen(n) ==
  CASE n = "plasma"  -> [cascade |-> {}, ops |-> {"lconfmat"}, clear |-> {"pm", "bm", "att"}]   \* PlasmaModel/BeamModel/attenuator _change, Laser._plasma_changed
    [] n = "comp"    -> [cascade |-> {"plasma"}, ops |-> {}, clear |-> {}]                      \* Plasma._modified
    [] n = "pmodels" -> [cascade |-> {}, ops |-> {"pconf"}, clear |-> {}]                       \* Plasma._configure_geometry
    [] n = "beam"    -> [cascade |-> {}, ops |-> {}, clear |-> {"bm", "att"}]                   \* BeamModel._change, BeamAttenuator._change
    [] n = "bmodels" -> [cascade |-> {}, ops |-> {"bconf"}, clear |-> {}]                       \* Beam._configure_geometry
    [] n = "att"     -> [cascade |-> {"beam"}, ops |-> {}, clear |-> {}]                        \* Beam._modified
    [] n = "profile" -> [cascade |-> {}, ops |-> {"lconfgeo"}, clear |-> {}]                    \* Laser.configure_geometry
OpEffect(o) ==
  CASE o = "pconf"    -> [rebuild |-> {"pmat"}, clear |-> {"pm"}]       \* new PlasmaMaterial sets model.plasma / model.atomic_data -> _change
    [] o = "bconf"    -> [rebuild |-> {"bgeom"}, clear |-> {"bm"}]      \* new bounding primitive + BeamMaterial -> model setters -> _change
    [] o = "aconf"    -> [rebuild |-> {}, clear |-> {"att"}]            \* attenuator.beam/plasma/atomic_data = ... -> _change
    [] o = "achange"  -> [rebuild |-> {}, clear |-> {"att"}]
    [] o = "bmchange" -> [rebuild |-> {}, clear |-> {"bm"}]
    [] o = "lconfmat" -> [rebuild |-> {"lmat"}, clear |-> {}]
    [] o = "lconfgeo" -> [rebuild |-> {"lseg", "lmat"}, clear |-> {}]

\* notifiers fired transitively (cascades are at most one level deep in this wiring, two rounds suffice)
Close(N) == LET N1 == N \cup UNION {Listen(n).cascade : n \in N} IN N1 \cup UNION {Listen(n).cascade : n \in N1}
OpsRun(p, c) == Direct(p) \cup UNION {Listen(n).ops : n \in Close(Fires(p, c))}
Cleared(p, c) == UNION {Listen(n).clear : n \in Close(Fires(p, c))} \cup UNION {OpEffect(o).clear : o \in OpsRun(p, c)}
Rebuilt(p, c) == UNION {OpEffect(o).rebuild : o \in OpsRun(p, c)}

\* the callbacks registered on a notifier (owner class . method), as the code registers them: used by trace validation
CallbackNames(n, c) ==
  CASE n = "plasma"  -> {"BeamAttenuator._change", "Laser._plasma_changed"}
                        \cup (IF c["P_models"] # 3 THEN {"PlasmaModel._change"} ELSE {})
                        \cup (IF c["B_models"] # 3 THEN {"BeamModel._change"} ELSE {})
    [] n = "comp"    -> {"Plasma._modified"}
    [] n = "pmodels" -> {"Plasma._configure_geometry"}
    [] n = "beam"    -> {"BeamAttenuator._change"} \cup (IF c["B_models"] # 3 THEN {"BeamModel._change"} ELSE {})
    [] n = "bmodels" -> {"Beam._configure_geometry"}
    [] n = "att"     -> {"Beam._modified", "Beam._configure_geometry"}
    [] n = "profile" -> {"Laser.configure_geometry"}
\* callbacks that must be notified when parameter p is set (c = configuration after the assignment)
Required(p, c) == UNION {CallbackNames(n, c) : n \in Close(Fires(p, c))}

Fresh(c)    == [k \in Caches |-> IF k \in Eager THEN <<Proj(k, c)>> ELSE <<>>]
Observed(c) == [k \in Caches |-> <<Proj(k, c)>>]
AllOnes == [p \in Params |-> 1]

Init == /\ cfg = AllOnes
        /\ \E i \in Inits : cache = IF i = "fresh" THEN Fresh(cfg) ELSE Observed(cfg)
        /\ hist = <<[op |-> "init", observed |-> cache["att"] # <<>>]>>

Log(e) == hist' = Append(hist, e)

\* <object>.<attribute> = value (re-assigning the current value is a supported change too: new objects, same configuration)
\* except Node.parent, where raysect returns early when the parent is already the one assigned
\* public front-ends that reach the same configuration value: attribute assignment, <manager>.set(list),
\* <manager>.clear() followed by .add(x) per element, and (composition only) .add(x) per element, which replaces species in place
\* (Laser.models hands out a copy of its list: assignment is its only front-end)
Vias(p) == IF p \in {"P_models", "B_models"} THEN {"assign", "set", "clear_add"}
           ELSE IF p = "P_comp" THEN {"set", "clear_add", "add"} ELSE {"assign"}
NoOpWhenSame == {"P_parent", "B_parent"}
IsNoOp(p, v) == p \in NoOpWhenSame /\ cfg[p] = v
Set(p, v, via) ==
    /\ cfg' = [cfg EXCEPT ![p] = v]
    /\ cache' = IF IsNoOp(p, v) THEN cache
                ELSE [k \in Caches |-> IF k \in Rebuilt(p, cfg') THEN <<Proj(k, cfg')>>
                                       ELSE IF k \in Cleared(p, cfg') THEN <<>> ELSE cache[k]]
    /\ Log([op |-> "set", p |-> p, v |-> v, via |-> via, fired |-> IF IsNoOp(p, v) THEN {} ELSE Close(Fires(p, cfg')),
            ops |-> IF IsNoOp(p, v) THEN {} ELSE OpsRun(p, cfg')])

\* an observation fills the lazily computed state it needs from the *current* configuration
Touches(k) == CASE k = "plasma_ray" -> {"pm"}
                [] k = "beam_ray" -> {"pm", "bm", "att"}
                [] k = "laser_ray" -> {"pm", "bm", "att"}
                [] k = "beam_density" -> {"att"}
                [] OTHER -> {}
Observe(k) ==
    /\ cache' = [c \in Caches |-> IF c \in Touches(k) /\ cache[c] = <<>> THEN <<Proj(c, cfg)>> ELSE cache[c]]
    /\ UNCHANGED cfg
    /\ Log([op |-> "observe", k |-> k])

NextStep == \/ \E p \in MutParams : \E v \in Values(p) : \E via \in Vias(p) : Set(p, v, via)
            \/ \E k \in ObsKinds : Observe(k)
Next == Len(hist) <= MaxHist /\ NextStep
Spec == Init /\ [][Next]_vars

\* C01 on the model: whatever is cached was computed from the configuration we are in now,
\* hence every observation is a function of the final configuration only
NoStale == \A k \in Caches : cache[k] # <<>> => cache[k][1] = Proj(k, cfg)
EagerFilled == \A k \in Eager : cache[k] # <<>>
\* observations never change the configuration (action property)
ObserveIsPure == [][hist'[Len(hist')].op = "observe" => cfg' = cfg]_vars

View == <<cfg, cache>>
Emit == PrintT(ToJson([h |-> hist', cfg |-> cfg']))
=============================================================================
