------------------------------ MODULE RTObject ------------------------------
(***************************************************************************)
(* C10, ray-transfer objects (cherab/tools/raytransfer/raytransfer.py and    *)
(* the RayTransferEmitter base in emitters.pyx): the voxel map of a          *)
(* RayTransferBox / RayTransferCylinder can be replaced, directly or through *)
(* a boolean mask; the number of light sources (bins), the mask read-out,    *)
(* the inverted map and what the integrator books where all follow the       *)
(* current map.  Cells are numbered in C order; a mask numbers its active    *)
(* cells consecutively in that order; -1 marks an inactive cell.             *)
(***************************************************************************)
EXTENDS Integers, Sequences, FiniteSets, TLC, Json

CONSTANTS NCells,     \* number of grid cells (C order index 1..NCells)
          MaxHist

Cells == 1..NCells
MapVals == -1..(NCells - 1)
VARIABLES map,        \* [Cells -> MapVals]
          outcome, hist,
          touched     \* ghost: has anything been read since the last successful change (so that "read, then change" histories are explored)
vars == <<map, outcome, hist, touched>>

Max(S) == CHOOSE x \in S : \A y \in S : y <= x
Bins(m) == Max({m[c] : c \in Cells}) + 1
\* consecutive numbering of the active cells of a mask, in cell order
FromMask(mk) == [c \in Cells |-> IF mk[c] THEN Cardinality({d \in Cells : d < c /\ mk[d]}) ELSE -1]
Identity == [c \in Cells |-> c - 1]

Init == map = Identity /\ outcome = "ok" /\ hist = <<>> /\ touched = FALSE
Log(e) == hist' = Append(hist, e)
SetMap(m) == map' = m /\ outcome' = "ok" /\ touched' = FALSE /\ Log([op |-> "voxel_map", m |-> m])
SetMask(mk) == map' = FromMask(mk) /\ outcome' = "ok" /\ touched' = FALSE /\ Log([op |-> "mask", m |-> mk])
\* an array of the wrong shape is refused and changes nothing
SetWrongShape(which) == outcome' = "ValueError" /\ UNCHANGED <<map, touched>> /\ Log([op |-> which, m |-> "wrong-shape"])
Read == outcome' = "ok" /\ touched' = TRUE /\ UNCHANGED map /\ Log([op |-> "read", m |-> "-"])

\* maps explored: one source per cell, merged sources, holes, a gap in the numbering (source 1 unused)
Maps == {m \in [Cells -> MapVals] : \/ \A c1 \in Cells : m[c1] \in {-1, 0}
                                     \/ \A c2 \in Cells : m[c2] = c2 - 1 \/ m[c2] = -1
                                     \/ \A c3 \in Cells : m[c3] \in {0, 2}}
NextStep == \/ \E m \in Maps : SetMap(m)
            \/ \E mk \in [Cells -> BOOLEAN] : SetMask(mk)
            \/ \E w \in {"voxel_map", "mask"} : SetWrongShape(w)
            \/ Read
Next == Len(hist) < MaxHist /\ NextStep
Spec == Init /\ [][Next]_vars

\* the inverted map: cells of each source; together with the inactive cells they partition the grid
Inv(m) == [s \in 0..(Bins(m) - 1) |-> {c \in Cells : m[c] = s}]
InvPartitions == LET iv == Inv(map) IN
                 /\ \A c \in Cells : map[c] >= 0 => c \in iv[map[c]]
                 /\ \A s, t \in DOMAIN iv : s # t => iv[s] \cap iv[t] = {}
MaskRoundTrip == \A mk \in [Cells -> BOOLEAN] : \A c \in Cells : (FromMask(mk)[c] > -1) = mk[c]
MaskNumbersConsecutively == \A mk \in [Cells -> BOOLEAN] : {FromMask(mk)[c] : c \in {d \in Cells : mk[d]}} = 0..(Cardinality({d \in Cells : mk[d]}) - 1)

View == <<map, outcome, touched>>
Emit == PrintT(ToJson([h |-> hist', map |-> map', bins |-> Bins(map'), outcome |-> outcome',
                       inv |-> [s \in 0..(Bins(map') - 1) |-> {c \in Cells : map'[c] = s}]]))
=============================================================================
