------------------------------- MODULE Notify -------------------------------
(***************************************************************************)
(* C01, observer plumbing (cherab/core/utility/notify.py).  A Notifier keeps  *)
(* an ordered registry of callbacks by weak reference: bound methods as       *)
(* (owner, method name), plain callables by themselves.  add() ignores a      *)
(* callback that is already registered, remove() drops it, notify() calls     *)
(* every registered callback whose owner is still alive exactly once, in      *)
(* registration order, and forgets the dead ones.  Owners can die at any      *)
(* time (the registry must never keep them alive).  Everything in Scene.tla   *)
(* rests on this: a live dependent that is skipped once keeps a stale cache.  *)
(* NotifyingList: every mutating list method notifies exactly once.           *)
(***************************************************************************)
EXTENDS Naturals, Sequences, FiniteSets, TLC, Json

CONSTANTS Owners,     \* objects whose bound methods are registered
          Methods,    \* method names
          Funcs,      \* plain callables
          MaxHist

VARIABLES reg,        \* Seq of callbacks: <<"m", owner, method>> or <<"f", func>>
          alive,      \* set of owners / funcs not yet garbage collected
          calls,      \* [callback -> number of times it has run]
          order,      \* the callbacks run by the last notify, in the order they ran
          hist
vars == <<reg, alive, calls, order, hist>>

Callbacks == {<<"m", o, m>> : o \in Owners, m \in Methods} \cup {<<"f", f>> : f \in Funcs}
Holder(cb) == cb[2]                                   \* the object whose death kills the callback
Live(cb) == Holder(cb) \in alive
Rng(s) == {s[i] : i \in 1..Len(s)}
SelectSeqP(s, P(_)) == SelectSeq(s, P)

Init == /\ reg = <<>> /\ alive = Owners \cup Funcs
        /\ calls = [cb \in Callbacks |-> 0] /\ order = <<>> /\ hist = <<>>
Log(e) == hist' = Append(hist, e)

\* notifier.add(cb): registered once
Add(cb) == /\ Live(cb)
           /\ reg' = IF cb \in Rng(reg) THEN reg ELSE Append(reg, cb)
           /\ UNCHANGED <<alive, calls, order>> /\ Log([op |-> "add", cb |-> cb])
\* notifier.remove(cb): dropped if present, otherwise nothing happens
Remove(cb) == /\ Live(cb)
              /\ reg' = SelectSeq(reg, LAMBDA x : x # cb)
              /\ UNCHANGED <<alive, calls, order>> /\ Log([op |-> "remove", cb |-> cb])
\* the last strong reference to an owner / function goes away
Die(x) == /\ x \in alive
          /\ alive' = alive \ {x}
          /\ UNCHANGED <<reg, calls, order>> /\ Log([op |-> "die", x |-> x])
\* notifier.notify()
Notify == LET live == SelectSeq(reg, Live) IN
          /\ calls' = [cb \in Callbacks |-> IF cb \in Rng(live) THEN calls[cb] + 1 ELSE calls[cb]]
          /\ order' = live
          /\ reg' = live
          /\ UNCHANGED alive /\ Log([op |-> "notify"])

NextStep == \/ \E cb \in Callbacks : Add(cb) \/ Remove(cb)
            \/ \E x \in Owners \cup Funcs : Die(x)
            \/ Notify
Next == Len(hist) < MaxHist /\ NextStep
Spec == Init /\ [][Next]_vars

NoDuplicates == \A i, j \in 1..Len(reg) : i # j => reg[i] # reg[j]
\* every live registered callback runs exactly once per notify, nothing else runs
NotifyRunsLiveOnce == [][(hist' # hist /\ hist'[Len(hist')].op = "notify") =>
                          \A cb \in Callbacks : calls'[cb] = calls[cb] + (IF cb \in Rng(reg) /\ Live(cb) THEN 1 ELSE 0)]_vars
\* dead callbacks are never run and do not survive a notify
DeadForgotten == [][(hist' # hist /\ hist'[Len(hist')].op = "notify") => \A i \in 1..Len(reg') : Live(reg'[i])]_vars
\* only notify runs callbacks
OnlyNotifyRuns == [][(hist' # hist /\ hist'[Len(hist')].op # "notify") => calls' = calls]_vars

\* what the harness compares: live registered callbacks in order (is_present for each), run counts, last run order
View == <<reg, alive, calls, order>>
Emit == PrintT(ToJson([h |-> hist', present |-> SelectSeq(reg', LAMBDA x : x[2] \in alive'), order |-> order',
                       calls |-> {<<cb, calls'[cb]>> : cb \in {c \in Callbacks : calls'[c] > 0}}]))

-----------------------------------------------------------------------------
\* NotifyingList: which list methods change the content (and so must notify exactly once) and which do not
ListOps == [append |-> 1, insert |-> 1, extend |-> 1, pop |-> 1, remove |-> 1, clear |-> 1, reverse |-> 1, sort |-> 1,
            setitem |-> 1, delitem |-> 1, iadd |-> 1, imul |-> 1,
            getitem |-> 0, len |-> 0, index |-> 0, count |-> 0, copy |-> 0, contains |-> 0, iter |-> 0, add |-> 0, mul |-> 0]
ASSUME PrintT(ToJson([listops |-> ListOps]))
=============================================================================
