---------------------------- MODULE LaserObjects ----------------------------
(***************************************************************************)
(* C18 - laser profiles and laser spectra (cherab/core/model/laser/          *)
(* profile.pyx, laserspectrum.pyx; cherab/core/laser/{profile,laserspectrum} *)
(* .pyx) as parameters + eagerly recomputed derived state.  Every setter     *)
(* validates, assigns and recomputes what depends on the parameter           *)
(* (_function_changed() for the energy-density function, _update_cache() for *)
(* the binned spectrum); geometry is generated on demand from length and     *)
(* radius.  Same shape as Instrument.tla; Kind selects the class.            *)
(***************************************************************************)
EXTENDS Integers, Sequences, FiniteSets, TLC, Json

CONSTANTS Kind, MaxHist
VARIABLES par, cache, outcome, hist,
          touched,   \* ghost: has anything been read since the last successful change (so that "read, then change" histories are explored)
          attached   \* how often the profile has been handed to its Laser node (1: once; 2: the same object was assigned again)
vars == <<par, cache, outcome, hist, touched, attached>>

Params == CASE Kind = "uniform"    -> {"energy_density", "laser_length", "laser_radius", "polarization"}
            [] Kind = "cbg"        -> {"pulse_energy", "pulse_length", "stddev_x", "stddev_y", "laser_length", "laser_radius", "polarization"}
            [] Kind = "trivariate" -> {"pulse_energy", "pulse_length", "stddev_x", "stddev_y", "mean_z", "laser_length", "laser_radius", "polarization"}
            [] Kind = "gaussbeam"  -> {"pulse_energy", "pulse_length", "waist_z", "stddev_waist", "laser_wavelength", "laser_length", "laser_radius", "polarization"}
            [] Kind = "constspec"  -> {"min_wavelength", "max_wavelength", "bins"}
            [] Kind = "gaussspec"  -> {"min_wavelength", "max_wavelength", "bins", "mean", "stddev"}
\* value id 3 = the constructor's default for the parameter (a fresh object built with id 3 omits the argument)
HasDefaultId(p) == p \in {"energy_density", "pulse_energy", "pulse_length", "stddev_x", "stddev_y", "mean_z", "waist_z", "stddev_waist", "laser_wavelength"}
Values(p) == IF HasDefaultId(p) THEN 1..3 ELSE 1..2
\* ids of invalid inputs: 0 and -1 stand for a zero / negative number, -2 (spectra) for a range with min >= max
Invalid(p) == IF p \in {"polarization", "mean_z", "waist_z", "stddev_waist", "laser_wavelength"} THEN {}
              ELSE IF p \in {"min_wavelength", "max_wavelength"} THEN {0, -1, -2} ELSE {0, -1}

IsSpectrum == Kind \in {"constspec", "gaussspec"}
Caches == IF IsSpectrum THEN {"binned"} ELSE {"efun", "polfun"}
Dep(c) == CASE c = "binned" -> Params
            [] c = "polfun" -> {"polarization"}
            [] c = "efun" -> Params \ {"laser_length", "laser_radius", "polarization"}
Proj(c, pr) == [p \in Dep(c) |-> pr[p]]

Init == /\ par \in [Params -> {1}] \cup [Params -> {2}] \cup (IF IsSpectrum THEN {} ELSE {[p \in Params |-> IF HasDefaultId(p) THEN 3 ELSE 1]})
        /\ cache = [c \in Caches |-> <<Proj(c, par)>>]
        /\ outcome = "ok" /\ touched = FALSE /\ attached = 1
        /\ hist = <<[op |-> "init", par |-> par]>>
Log(e) == hist' = Append(hist, e)

\* what each setter recomputes (transcribed from the setters; Dep above is what the documented formulas read):
\* spectra: every setter -> _update_cache(); profiles: polarization -> set_polarization_function, length / radius -> notify
\* the Laser node only (geometry is generated from them on demand), every other parameter -> _function_changed()
Recomputes(p) == IF IsSpectrum THEN {"binned"}
                 ELSE IF p = "polarization" THEN {"polfun"}
                 ELSE IF p \in {"laser_length", "laser_radius"} THEN {} ELSE {"efun"}
Set(p, v) ==
    /\ par' = [par EXCEPT ![p] = v]
    /\ cache' = [c \in Caches |-> IF c \in Recomputes(p) THEN <<Proj(c, par')>> ELSE cache[c]]
    /\ outcome' = "ok" /\ touched' = FALSE /\ UNCHANGED attached
    /\ Log([op |-> "set", p |-> p, v |-> v])
SetInvalid(p, v) ==
    /\ outcome' = "ValueError"
    /\ UNCHANGED <<par, cache, touched, attached>>
    /\ Log([op |-> "set", p |-> p, v |-> v])
\* reading any observable leaves everything as it is (observations are pure)
Read == /\ UNCHANGED <<par, cache, attached>> /\ outcome' = "ok" /\ touched' = TRUE /\ Log([op |-> "read"])
\* the Laser node is handed the profile it already has (laser.laser_profile = profile once more): nothing changes, and the node
\* keeps following the profile afterwards (explored as the first step of a history)
Reattach == /\ ~IsSpectrum /\ attached = 1 /\ Len(hist) = 1 /\ attached' = 2
            /\ UNCHANGED <<par, cache, touched>> /\ outcome' = "ok" /\ Log([op |-> "reattach"])

NextStep == \/ \E p \in Params : \E v \in Values(p) : Set(p, v)
            \/ \E p \in Params : \E v \in Invalid(p) : SetInvalid(p, v)
            \/ Read
            \/ Reattach
Next == Len(hist) <= MaxHist /\ NextStep
Spec == Init /\ [][Next]_vars

NoStale == \A c \in Caches : cache[c] # <<>> /\ cache[c][1] = Proj(c, par)

-----------------------------------------------------------------------------
\* Laser segments: a cylinder of length L and radius r is cut into n = floor(L / 2r) pieces of L/n when n > 1,
\* else it is one piece.  Lengths as rationals <<num, den>> over a common denominator D.
D == 100
Lengths == [i \in 1..2 |-> IF i = 1 THEN 100 ELSE 15]      \* L * D :  1.00 m, 0.15 m (shorter than 2r for r = 0.1)
Radii   == [i \in 1..2 |-> IF i = 1 THEN 5 ELSE 10]        \* r * D :  0.05 m, 0.10 m
NSeg(L, r) == LET n == L \div (2 * r) IN IF n > 1 THEN n ELSE 1
\* The number of pieces the code uses is floor(L / 2r) evaluated in floating point, which may be one less than the exact
\* quotient (1.0 // 0.1 = 9.0); the property only demands an exact tiling, so every admissible n is specified:
\* n pieces [(i-1) L / n, i L / n], i = 1..n, for some 1 <= n <= max(1, floor(L / 2r)).
Pieces(L, n) == [i \in 1..n |-> <<(i - 1) * L, i * L>>]             \* numerators over the denominator n * D
SegmentsTile == \A li, ri \in 1..2 :
                  LET L == Lengths[li]  r == Radii[ri] IN
                  \A n \in 1..NSeg(L, r) : LET S == Pieces(L, n) IN
                    /\ S[1][1] = 0 /\ S[n][2] = n * L
                    /\ \A i \in 1..(n - 1) : S[i][2] = S[i + 1][1]
                    /\ \A i \in 1..n : S[i][2] - S[i][1] = L
ExpSegments(pr) == IF IsSpectrum THEN <<>> ELSE
                   LET L == Lengths[pr["laser_length"]]  r == Radii[pr["laser_radius"]] IN
                   [nmax |-> NSeg(L, r), length |-> <<L, D>>, radius |-> <<r, D>>]

View == <<par, cache, outcome, touched, attached>>
Emit == PrintT(ToJson([h |-> hist', par |-> par', outcome |-> outcome', segments |-> ExpSegments(par')]))
=============================================================================
