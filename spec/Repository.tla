----------------------------- MODULE Repository -----------------------------
(***************************************************************************)
(* C06 - the JSON rate repository of cherab.openadas as a key/value store   *)
(* laid out over files.  Read side by side with                             *)
(*   cherab/openadas/repository/{atomic,pec,radiated_power,wavelength}.py   *)
(*   cherab/openadas/repository/beam/{cx,stopping,population,emission}.py   *)
(*                                                                          *)
(* A *key* is the tuple the public API addresses a table by; FileOf(k) is   *)
(* the JSON file the code keeps it in (relative to the repository root) and *)
(* every write is a read-modify-write of that one file.  `store[k]` is the   *)
(* id of the value most recently written for k (0 = never written).          *)
(* Transition levels are already the lower-cased "<upper> -> <lower>" string *)
(* (encode_transition), so spellings differing in case / int-vs-str are the  *)
(* same key; which spelling a call used is recorded in `hist` only.          *)
(***************************************************************************)
EXTENDS Naturals, Sequences, FiniteSets, TLC, Json

CONSTANTS Species,    \* lower-cased symbols of plasma species (an element, one of its isotopes, ...)
          Donors,     \* donor / beam species
          Charges,    \* valid charges used
          TKeys,      \* abstract transition keys
          Metas,      \* beam / donor metastable indices
          Vals,       \* abstract value ids (>= 1)
          Apis,       \* subset of {"add", "update"}: which front-end performs a single-key write
          Families,   \* families explored in this run
          MaxHist,    \* bound on history length
          SameFamily, \* TRUE: all steps of one behaviour address the same family (cross-family runs use FALSE)
          MaxMulti,   \* max number of keys in one multi-key update (0 = none)
          InstFronts, \* install_* front-ends explored (subset of Fronts; {} = none)
          SharedInputs, \* BOOLEAN: explore writes that reuse the data object of the preceding write (WriteSame)
          FieldRejects, \* BOOLEAN: explore writes with one unusable field (RejectField)
          Probes      \* subset of BOOLEAN: does the caller read every key back after every call (TRUE) or only at the end

VARIABLES store, hist,
          probe       \* fixed per behaviour: reads in between must not matter (a read never changes what later reads return)
vars == <<store, hist, probe>>

Adf11Fams == {"ionisation", "recombination", "line_power", "continuum_power", "cx_power"}
TransFams == {"pec_excitation", "pec_recombination", "wavelength"}
AllFamilies == Adf11Fams \cup TransFams \cup
               {"thermal_cx", "pec_thermal_cx", "beam_cx", "beam_stopping", "beam_population", "beam_emission"}

\* keys of one family, as the argument tuple of its get_* function
KeysOf(f) ==
  CASE f \in Adf11Fams        -> {<<f, s, q>> : s \in Species, q \in Charges}
    [] f = "thermal_cx"       -> {<<f, d, 0, r, q>> : d \in Donors, r \in Species, q \in Charges}
    [] f \in TransFams        -> {<<f, s, q, t>> : s \in Species, q \in Charges, t \in TKeys}
    [] f = "pec_thermal_cx"   -> {<<f, d, 0, r, q, t>> : d \in Donors, r \in Species, q \in Charges, t \in TKeys}
    [] f = "beam_cx"          -> {<<f, d, r, q, t, m>> : d \in Donors, r \in Species, q \in Charges, t \in TKeys, m \in Metas}
    [] f = "beam_stopping"    -> {<<f, b, s, q>> : b \in Donors, s \in Species, q \in Charges}
    [] f = "beam_population"  -> {<<f, b, m, s, q>> : b \in Donors, m \in Metas, s \in Species, q \in Charges}
    [] f = "beam_emission"    -> {<<f, b, s, q, t>> : b \in Donors, s \in Species, q \in Charges, t \in TKeys}

AllKeys == UNION {KeysOf(f) : f \in Families}

\* the file (path components under the repository root, ".json" implied) holding key k
FileOf(k) ==
  LET f == k[1] IN
  CASE f = "ionisation"        -> <<"ionisation", k[2]>>
    [] f = "recombination"     -> <<"recombination", k[2]>>
    [] f = "line_power"        -> <<"radiated_power", "line", k[2]>>
    [] f = "continuum_power"   -> <<"radiated_power", "continuum", k[2]>>
    [] f = "cx_power"          -> <<"radiated_power", "cx", k[2]>>
    [] f = "thermal_cx"        -> <<"thermal_cx", k[2], k[3], k[4]>>
    [] f = "pec_excitation"    -> <<"pec", "excitation", k[2], k[3]>>
    [] f = "pec_recombination" -> <<"pec", "recombination", k[2], k[3]>>
    [] f = "wavelength"        -> <<"wavelength", k[2], k[3]>>
    [] f = "pec_thermal_cx"    -> <<"pec", "thermal_cx", k[2], k[3], k[4], k[5]>>
    [] f = "beam_cx"           -> <<"beam", "cx", k[2], k[3], k[4]>>
    [] f = "beam_stopping"     -> <<"beam", "stopping", k[2], k[3], k[4]>>
    [] f = "beam_population"   -> <<"beam", "population", k[2], k[3], k[4], k[5]>>
    [] f = "beam_emission"     -> <<"beam", "emission", k[2], k[3], k[4]>>

Files(st) == {FileOf(k) : k \in {kk \in AllKeys : st[kk] # 0}}

\* the key universe of this run, for the conformance harness
ASSUME PrintT(ToJson([universe |-> AllKeys]))

Init == /\ store = [k \in AllKeys |-> 0]
        /\ hist = <<>> /\ probe \in Probes

Abs(st) == {<<k, st[k]>> : k \in {kk \in AllKeys : st[kk] # 0}}

\* each history entry carries the abstract post-state and the files that must exist after it
Log(e) == hist' = Append(hist, e @@ [post |-> Abs(store'), files |-> Files(store')])

\* add_<family>(key..., value)  or  update_<family>({key: value}) : read-modify-write of FileOf(k)
Write(k, v, api, spelling) ==
  /\ store' = [store EXCEPT ![k] = v]
  /\ Log([op |-> "write", api |-> api, k |-> k, v |-> v, sp |-> spelling])

\* The caller hands the very data object of the preceding write (of key k0, value id v0) to a write of another key of
\* the family: k then holds a copy of that content - the library may not have consumed or altered the caller's object.
\* The stored id is CopyOf(v0); the history entry names the source key.
CopyOf(v) == 10 + v
WriteSame(k, api) ==
  /\ Len(hist) > 0
  /\ LET e == hist[Len(hist)] IN
       /\ e.op = "write" /\ e.v \in Vals /\ e.k[1] = k[1] /\ e.k # k /\ k[1] # "wavelength"
       /\ store' = [store EXCEPT ![k] = CopyOf(e.v)]
       /\ Log([op |-> "write", api |-> api, k |-> k, v |-> CopyOf(e.v), sp |-> 1, shared |-> TRUE, from |-> e.k])

\* update_<family>({k1: v1, k2: v2, ...}) with all entries valid
MultiUpdate(f, W, w) ==
  /\ store' = [k \in AllKeys |-> IF k \in W THEN w[k] ELSE store[k]]
  /\ Log([op |-> "multi", f |-> f, w |-> {<<k, w[k]>> : k \in W}])

\* update_<family>({k1: v1, ..., <invalid entry>, ...}) that raises part-way: the entries the code had
\* already written (S) stay written, nothing else changes - in particular every previously
\* stored key is still readable.  Which prefix lands depends on dict order and file granularity,
\* so the model allows any subset S of the valid entries.
RejectedMulti(f, W, w, S) ==
  /\ S \subseteq W
  /\ store' = [k \in AllKeys |-> IF k \in S THEN w[k] ELSE store[k]]
  /\ Log([op |-> "rejmulti", f |-> f, w |-> {<<k, w[k]>> : k \in W}])

\* ---- the ADF install_* front-ends (cherab/openadas/install.py): parse one ADF file and store every table it holds in one
\* update_* call.  InstVal is the value id of "the tables of the synthetic file" (the harness writes the file).
InstVal == 9
Fronts == {"adf11scd", "adf11acd", "adf11plt", "adf11prb", "adf11prc", "adf11ccd", "adf21", "adf22bmp", "adf22bme"}
ZOf(s) == CASE s \in {"h", "d", "t"} -> 1 [] s = "he" -> 2 [] OTHER -> 6
FrontFam(fr) == CASE fr = "adf11scd" -> "ionisation" [] fr = "adf11acd" -> "recombination" [] fr = "adf11plt" -> "line_power"
                  [] fr = "adf11prb" -> "continuum_power" [] fr = "adf11prc" -> "cx_power" [] fr = "adf11ccd" -> "thermal_cx"
                  [] fr = "adf21" -> "beam_stopping" [] fr = "adf22bmp" -> "beam_population" [] fr = "adf22bme" -> "beam_emission"
\* ADF11 files hold one block per ionisation stage Z1 = 1..; ionisation and line power of block Z1 belong to charge Z1 - 1,
\* recombination, continuum / CX power and thermal CX to charge Z1.  The synthetic file has the blocks of the charges in Charges.
LowQ(s)  == {q \in Charges : q + 1 <= ZOf(s)}
HighQ(s) == {q \in Charges : 1 <= q /\ q <= ZOf(s)}
InstallKeys(fr, s, d) ==
  CASE fr = "adf11scd" -> {<<"ionisation", s, q>> : q \in LowQ(s)}
    [] fr = "adf11plt" -> {<<"line_power", s, q>> : q \in LowQ(s)}
    [] fr = "adf11acd" -> {<<"recombination", s, q>> : q \in HighQ(s)}
    [] fr = "adf11prb" -> {<<"continuum_power", s, q>> : q \in HighQ(s)}
    [] fr = "adf11prc" -> {<<"cx_power", s, q>> : q \in HighQ(s)}
    [] fr = "adf11ccd" -> {<<"thermal_cx", d, 0, s, q>> : q \in HighQ(s)}
    [] fr = "adf21"    -> {<<"beam_stopping", d, s, 1>>}
    [] fr = "adf22bmp" -> {<<"beam_population", d, 1, s, 1>>}
    [] fr = "adf22bme" -> {<<"beam_emission", d, s, 1, "t1">>}
Install(fr, s, d) ==
  LET W == InstallKeys(fr, s, d) IN
  /\ W # {} /\ W \subseteq AllKeys
  /\ store' = [k \in AllKeys |-> IF k \in W THEN InstVal ELSE store[k]]
  /\ Log([op |-> "install", front |-> fr, f |-> FrontFam(fr), s |-> s, d |-> d, keys |-> W])

\* a single-entry add/update whose data are invalid: nothing may change
\* kind: "charge" (charge > Z), "shape" (inconsistent array sizes), "type" (species is not an Element)
Reject(k, kind, api) ==
  /\ ~ (kind = "shape" /\ k[1] = "wavelength")
  /\ UNCHANGED store
  /\ Log([op |-> "reject", api |-> api, k |-> k, kind |-> kind])

\* the data handed to a single-entry write is a dictionary with these fields (a wavelength is a bare number)
Fields(f) == CASE f \in Adf11Fams \cup {"thermal_cx"}            -> {"ne", "te", "rates"}
               [] f \in {"pec_excitation", "pec_recombination"} -> {"ne", "te", "rate"}
               [] f = "pec_thermal_cx"                          -> {"ne", "te", "td", "rate"}
               [] f = "wavelength"                              -> {}
               [] f = "beam_cx"                                 -> {"qref", "eb", "qeb", "ti", "qti", "ni", "qni", "z", "qz", "b", "qb"}
               [] OTHER                                         -> {"e", "n", "t", "sen", "st", "eref", "nref", "tref", "sref"}
Hows == {"missing", "none", "text"}       \* the field is absent / None / a word
\* a single-entry add/update one of whose fields is unusable: the call raises and nothing may change (in particular the
\* key's own file: the data must be validated before the file is opened for writing).  Explored as the first call on an
\* empty repository and right after a valid write of the same key.
RejectField(k, fld, how, api) ==
  /\ fld \in Fields(k[1])
  /\ (IF Len(hist) = 0 THEN TRUE ELSE (hist[Len(hist)].op = "write" /\ hist[Len(hist)].k = k))
  /\ UNCHANGED store
  /\ Log([op |-> "reject", api |-> api, k |-> k, kind |-> how, fld |-> fld])

FamOf(e) == IF e.op \in {"multi", "rejmulti", "install"} THEN e.f ELSE e.k[1]
FamOK(f) == IF SameFamily /\ Len(hist) > 0 THEN FamOf(hist[1]) = f ELSE TRUE

NextStep ==
  \/ \E k \in AllKeys, v \in Vals, api \in Apis, sp \in 1..2 :
        \* sp = 2: the second spelling of the key - transition levels in the other letter case / as strings, the charge as a numpy integer
        /\ FamOK(k[1])
        /\ Write(k, v, api, sp)
  \/ /\ MaxMulti >= 2
     /\ \E f \in Families : \E k1, k2 \in KeysOf(f) :
          /\ k1 # k2 /\ FamOK(f)
          /\ \E w \in [{k1, k2} -> Vals] :
                \/ MultiUpdate(f, {k1, k2}, w)
                \/ \E S \in SUBSET {k1, k2} : RejectedMulti(f, {k1, k2}, w, S)
  \/ \E k \in AllKeys, kind \in {"charge", "shape", "type"}, api \in Apis :
        /\ FamOK(k[1]) /\ Reject(k, kind, api)
  \/ \E k \in AllKeys, api \in Apis : SharedInputs /\ WriteSame(k, api)
  \/ \E k \in AllKeys, how \in Hows, api \in Apis : \E fld \in Fields(k[1]) :
        /\ FieldRejects /\ FamOK(k[1]) /\ RejectField(k, fld, how, api)
  \/ \E fr \in InstFronts, s \in Species, d \in Donors :
        /\ FrontFam(fr) \in Families /\ FamOK(FrontFam(fr))
        /\ (fr \notin {"adf11ccd", "adf21", "adf22bmp", "adf22bme"} => d = CHOOSE x \in Donors : TRUE)     \* donor irrelevant
        /\ Install(fr, s, d)

Next ==
  /\ Len(hist) < MaxHist
  /\ NextStep /\ UNCHANGED probe

Spec == Init /\ [][Next]_vars

-----------------------------------------------------------------------------
\* Properties of the model

TypeOK == store \in [AllKeys -> {0, InstVal} \cup Vals \cup {CopyOf(v) : v \in Vals}] /\ InstFronts \subseteq Fronts /\ InstVal \notin Vals

\* keys a history entry may touch
Touched(e) == CASE e.op = "write"  -> {e.k}
                [] e.op \in {"multi", "rejmulti"} -> {p[1] : p \in e.w}
                [] e.op = "reject" -> {}
                [] e.op = "install" -> e.keys

\* last write wins, per key: the stored id is the one of the last history entry touching the key
LastValue(k) ==
  LET idx == {i \in 1..Len(hist) : k \in Touched(hist[i])} IN
  IF idx = {} THEN 0
  ELSE LET i == CHOOSE j \in idx : \A jj \in idx : jj <= j
           e == hist[i]
       IN IF e.op = "write" THEN e.v ELSE IF e.op = "install" THEN InstVal ELSE (CHOOSE p \in e.w : p[1] = k)[2]

\* histories with a partially applied (rejected) multi-update are excluded: their outcome is a set
LastWriteWins == (\A i \in 1..Len(hist) : hist[i].op # "rejmulti") => \A k \in AllKeys : store[k] = LastValue(k)

\* other keys untouched, as an action property
OthersUntouched == [][Len(hist') > 0 /\ \A k \in AllKeys : store'[k] # store[k] => k \in Touched(hist'[Len(hist')])]_vars

\* distinct keys never share an in-file slot: same file => they differ outside the path
NoAliasing == \A k1, k2 \in AllKeys : (k1[1] # k2[1]) => FileOf(k1) # FileOf(k2)

Bound == Len(hist) <= MaxHist
View == <<store, probe>>

Emit == PrintT(ToJson([h |-> hist', probe |-> probe']))
=============================================================================
