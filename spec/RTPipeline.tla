----------------------------- MODULE RTPipeline -----------------------------
(***************************************************************************)
(* C10, pipelines (cherab/tools/raytransfer/pipelines.py).  A ray-transfer   *)
(* pipeline is driven by the observer through raysect's protocol:            *)
(*   initialise(..)  ->  per pixel: pixel_processor(), add_sample() per ray, *)
(*   update(.., packed_result[, samples])  ->  finalise()                    *)
(* and may be used for any number of observations.  The matrix it reports    *)
(* after an observation is the mean of the samples of *that* observation     *)
(* (times the detector sensitivity for kind = "power"); nothing of an        *)
(* earlier observation may survive initialise().  A sample is val * basis    *)
(* (the harness uses basis = (1, 2, 3) over three bins), so a matrix row is  *)
(* described by one rational <<num, den>>.                                   *)
(***************************************************************************)
EXTENDS Integers, Sequences, FiniteSets, TLC, Json

\* (PKind is the pipeline's kind as a notion; the constructor takes its name in any letter case)
CONSTANTS Dim,        \* 0, 1 or 2: RayTransferPipeline0D / 1D / 2D
          PKind,      \* "power" or "radiance"
          MaxHist

Sens == 3                                             \* detector sensitivity handed to add_sample
W == IF PKind = "power" THEN Sens ELSE 1
Pixels == IF Dim = 0 THEN {0} ELSE {0, 1}             \* 0-D: one detector; 1-D: two pixels; 2-D: pixels (0,0), (1,0)
Vals == {1, 2}
Batches == {<<a>> : a \in Vals} \cup {<<a, b>> : a \in Vals, b \in Vals}

VARIABLES phase,      \* "new" | "open" | "done"
          num, den,   \* per pixel: accumulated numerator / divisor of the reported matrix row
          psamples,   \* 1-D / 2-D: pixel_samples declared at initialise
          cur,        \* per pixel: the samples rendered in the current observation (ghost: the truth the result is compared with)
          hist
vars == <<phase, num, den, psamples, cur, hist>>

RECURSIVE SumSeq(_)
SumSeq(s) == IF s = <<>> THEN 0 ELSE Head(s) + SumSeq(Tail(s))

Init == /\ phase = "new" /\ num = [p \in Pixels |-> 0] /\ den = [p \in Pixels |-> 1]
        /\ psamples = 0 /\ cur = [p \in Pixels |-> <<>>] /\ hist = <<>>
Log(e) == hist' = Append(hist, e)

\* observer.observe() starts: pipeline.initialise(...)
Initialise(ps) ==
    /\ phase \in {"new", "done"}
    /\ phase' = "open" /\ psamples' = ps
    /\ num' = [p \in Pixels |-> 0]
    /\ den' = [p \in Pixels |-> IF Dim = 0 THEN 0 ELSE ps]
    /\ cur' = [p \in Pixels |-> <<>>]
    /\ Log([op |-> "initialise", ps |-> ps])
\* one render task: a fresh pixel processor gets the samples of batch b, its packed result goes to update()
\* 0-D: any number of tasks, each with its own sample count; 1-D / 2-D: one task per pixel with exactly pixel_samples samples
Render(p, b) ==
    /\ phase = "open"
    /\ (Dim # 0 => Len(b) = psamples /\ cur[p] = <<>>)
    /\ num' = [num EXCEPT ![p] = (IF Dim = 0 THEN @ ELSE 0) + W * SumSeq(b)]
    /\ den' = [den EXCEPT ![p] = IF Dim = 0 THEN @ + Len(b) ELSE psamples]
    /\ cur' = [cur EXCEPT ![p] = @ \o b]
    /\ UNCHANGED <<phase, psamples>>
    /\ Log([op |-> "render", p |-> p, b |-> b])
Finalise ==
    /\ phase = "open" /\ \A p \in Pixels : cur[p] # <<>>
    /\ phase' = "done"
    /\ UNCHANGED <<num, den, psamples, cur>>
    /\ Log([op |-> "finalise"])

NextStep == \/ \E ps \in 1..2 : Initialise(ps)
            \/ \E p \in Pixels, b \in Batches : Render(p, b)
            \/ Finalise
Next == Len(hist) < MaxHist /\ NextStep
Spec == Init /\ [][Next]_vars

\* after an observation every matrix row is the mean of that observation's samples (x sensitivity for "power")
ResultIsMeanOfThisObservation ==
    phase = "done" => \A p \in Pixels : num[p] * Len(cur[p]) = W * SumSeq(cur[p]) * den[p] /\ den[p] > 0
\* initialise() leaves nothing of an earlier observation behind
InitialiseResets == [][(hist' # hist /\ hist'[Len(hist')].op = "initialise") => \A p \in Pixels : num'[p] = 0 /\ cur'[p] = <<>>]_vars

Emit == PrintT(ToJson([h |-> hist', phase |-> phase', rows |-> [p \in Pixels |-> <<num'[p], den'[p]>>], w |-> W, sens |-> Sens]))
=============================================================================
