------------------------------ MODULE Registry ------------------------------
(***************************************************************************)
(* C19 - the element / isotope registry of cherab.core.atomic.elements as a  *)
(* finite relational structure.  The structure is *recorded from the real    *)
(* module* (mbt/c19.py dumps every exported Element and Isotope, the result  *)
(* of every lookup spelling, the ==, != and hash() relations) and loaded     *)
(* here; the property is stated as first-order formulas over it.  One TLC    *)
(* state per object, so a violated invariant names the object.               *)
(***************************************************************************)
EXTENDS Integers, Sequences, FiniteSets, TLC, Json, IOUtils

Reg == JsonDeserialize(IOEnv.REGISTRY_FILE)
Obj == Reg.objects            \* sequence of records: kind, name, lname, symbol, lsymbol, z, a, w (micro-u), el (index of the element, 0 for elements)
N == Len(Obj)
Rng(s) == {s[i] : i \in 1..Len(s)}

\* the periodic table, typed independently of the code under test
PT == [h |-> 1, he |-> 2, li |-> 3, be |-> 4, b |-> 5, c |-> 6, n |-> 7, o |-> 8, f |-> 9, ne |-> 10,
       na |-> 11, mg |-> 12, al |-> 13, si |-> 14, p |-> 15, s |-> 16, cl |-> 17, ar |-> 18, k |-> 19, ca |-> 20,
       sc |-> 21, ti |-> 22, v |-> 23, cr |-> 24, mn |-> 25, fe |-> 26, co |-> 27, ni |-> 28, cu |-> 29, zn |-> 30,
       ga |-> 31, ge |-> 32, as |-> 33, se |-> 34, br |-> 35, kr |-> 36, rb |-> 37, sr |-> 38, y |-> 39, zr |-> 40,
       nb |-> 41, mo |-> 42, tc |-> 43, ru |-> 44, rh |-> 45, pd |-> 46, ag |-> 47, cd |-> 48, in |-> 49, sn |-> 50,
       sb |-> 51, te |-> 52, i |-> 53, xe |-> 54, cs |-> 55, ba |-> 56, la |-> 57, ce |-> 58, pr |-> 59, nd |-> 60,
       pm |-> 61, sm |-> 62, eu |-> 63, gd |-> 64, tb |-> 65, dy |-> 66, ho |-> 67, er |-> 68, tm |-> 69, yb |-> 70,
       lu |-> 71, hf |-> 72, ta |-> 73, w |-> 74, re |-> 75, os |-> 76, ir |-> 77, pt |-> 78, au |-> 79, hg |-> 80,
       tl |-> 81, pb |-> 82, bi |-> 83, po |-> 84, at |-> 85, rn |-> 86, fr |-> 87, ra |-> 88, ac |-> 89, th |-> 90,
       pa |-> 91, u |-> 92, np |-> 93, pu |-> 94, am |-> 95, cm |-> 96, bk |-> 97, cf |-> 98, es |-> 99, fm |-> 100]

VARIABLE o          \* the object under consideration
NL == Len(Reg.lines)
Init == o \in 1..(N + NL)          \* objects first, then one state per recorded Line
IsObj == o <= N
Next == UNCHANGED o
Spec == Init /\ [][Next]_o

IsEl(i)  == Obj[i].kind = "element"
IsIso(i) == Obj[i].kind = "isotope"

\* every recorded lookup that spells an identifier of object o returned o
LookupReturnsSelf == IsObj => \A k \in 1..Len(Reg.lookups) : Reg.lookups[k].target = o => Reg.lookups[k].result = o
\* and object o was actually looked up by each kind of identifier
LookupCovered == IsObj => LET kinds == {Reg.lookups[k].via : k \in {j \in 1..Len(Reg.lookups) : Reg.lookups[j].target = o}}
                 IN IF IsEl(o) THEN {"name", "symbol", "z"} \subseteq kinds
                    ELSE {"name", "symbol", "elsymbol+a", "elname+a", "element,number"} \subseteq kinds

UniqueName   == IsObj => \A p \in 1..N : p # o => Obj[p].lname # Obj[o].lname
UniqueSymbol == IsObj => \A p \in 1..N : (p # o /\ Obj[p].kind = Obj[o].kind) => Obj[p].lsymbol # Obj[o].lsymbol
ZMatchesTable == IsObj => (IsEl(o) => (Obj[o].lsymbol \in DOMAIN PT /\ PT[Obj[o].lsymbol] = Obj[o].z))
IsotopeConsistent == IsObj => (IsIso(o) => /\ Obj[o].el \in 1..N /\ IsEl(Obj[o].el)
                                 /\ Obj[o].z = Obj[Obj[o].el].z
                                 /\ Obj[o].a >= Obj[o].z
                                 /\ Obj[o].w - Obj[o].a * 1000000 < 100000
                                 /\ Obj[o].a * 1000000 - Obj[o].w < 100000)
\* equality and hashing: o equals exactly itself, is unequal (!=) to everything else, equal objects hash equally
EqIsIdentity == IsObj => Rng(Reg.eq[o]) = {o}
NeIsComplement == IsObj => Rng(Reg.not_ne[o]) = {o}
EqualHashEqual == IsObj => \A p \in Rng(Reg.eq[o]) : Reg.hash[p] = Reg.hash[o]
UsableAsDictKey == IsObj => Reg.dictkey[o] = o

\* spectral lines built twice from the same (element, charge, transition): equal exactly to their twin, same hash
LinesOK == ~IsObj => LET i == o - N IN
              /\ Rng(Reg.lines[i].eq) = {i, Reg.lines[i].twin}
              /\ Rng(Reg.lines[i].not_ne) = {i, Reg.lines[i].twin}
              /\ Reg.lines[i].hash = Reg.lines[Reg.lines[i].twin].hash
              /\ Reg.lines[i].dictkey \in {i, Reg.lines[i].twin}
=============================================================================
