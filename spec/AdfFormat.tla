----------------------------- MODULE AdfFormat -----------------------------
(***************************************************************************)
(* C08 - ADAS data files as abstract documents and what parsing them must    *)
(* yield (cherab/openadas/parse/adf11,12,15,21,22.py, install.py).           *)
(* A document is a record of structural parameters (grid sizes - including   *)
(* sizes that are not multiples of the values-per-line -, number and range   *)
(* of blocks, header kind, block types); every numeric entry is a distinct   *)
(* number computed from its (block, row, column) position by Val, so a       *)
(* mis-assigned, transposed or dropped entry is visible.  Expected() states  *)
(* the documented conventions: axis order (density, temperature), block ->   *)
(* charge state / transition assignment, unit conversions (log10 -> linear,  *)
(* cm^-3 -> m^-3, cm^3 -> m^3, Angstrom -> nm), rejection cases.             *)
(* The harness renders a document to text with an independent writer and     *)
(* compares the parsers' and installers' output with Expected.               *)
(***************************************************************************)
EXTENDS Integers, Sequences, FiniteSets, TLC, Json

CONSTANTS Kinds,      \* document kinds explored: subset of {"adf11", "adf15", "adf2x", "adf12"}
          Deep        \* TRUE (thorough): more table sizes around the 8-values-per-line wrap

\* value mantissas (the harness maps a mantissa to the decimal written in the file)
Val(b, i, j) == 10000 * b + 100 * i + j
AxisA(i) == 40 + i            \* e.g. log10 density = (40 + i)/4, or density = AxisA(i) * 1e12
AxisB(j) == j

Adf11Classes == {"scd", "acd", "ccd", "plt", "prb", "prc"}
\* charge-state convention: ionisation-like classes are labelled by the *resulting* charge Z1 in the file
ChargeCorrection(cls) == IF cls \in {"scd", "plt"} THEN -1 ELSE 0

\* tail: what follows the closing "C----" line of the data: a comment section (as in open-ADAS files) or nothing at all
Adf11Docs == {[kind |-> "adf11", cls |-> cls, z |-> z, nd |-> nd, nt |-> nt, zmin |-> zmin, zmax |-> zmax, match |-> m, tail |-> tail] :
                 tail \in {"comments", "none"}, cls \in Adf11Classes, z \in {2, 10, 18}, nd \in (IF Deep THEN {1, 2, 3, 7, 8, 9, 16, 17} ELSE {1, 3, 8, 9}), nt \in (IF Deep THEN {2, 7, 8, 9, 10, 16, 17} ELSE {2, 8, 10}), zmin \in {1, 2}, zmax \in {2, 10, 18}, m \in BOOLEAN}
Adf11OK(d) == d.zmin <= d.zmax /\ d.zmax <= d.z /\ (d.nd > 1 \/ d.nt > 1)
\* parsed table of block Z1: [density index i][temperature index j] = Val(Z1, j, i)   (file order is temperature-major)
Expected11(d) == [blocks |-> [b \in d.zmin..d.zmax |-> [charge |-> b + ChargeCorrection(d.cls), file_label |-> b]],
                  axis_order |-> <<"density", "temperature">>, outcome |-> IF d.match THEN "ok" ELSE "ValueError"]

\* ADF21 / ADF22: one table sv[energy][density] + a temperature vector
Adf2xDocs == {[kind |-> "adf2x", file |-> f, ne |-> ne, nn |-> nn, ntt |-> ntt] : f \in {"adf21", "adf22bmp", "adf22bme"}, ne \in {1, 3, 8, 9}, nn \in {1, 2, 8, 10}, ntt \in {1, 5, 9}}
\* beam stopping / emission coefficients are cm^3/s -> m^3/s, populations are dimensionless
Expected2x(d) == [cm3 |-> d.file # "adf22bmp", outcome |-> "ok"]

\* ADF15: transition blocks in file order, index (ISEL) table in the comments, three header conventions
\* rule: is the index table's column header followed by a dashed rule line (the open-ADAS layout) or directly by the first row
\* (eleven blocks only under the two hydrogen-style conventions: the synthetic configuration table of the "full" convention is
\* written for single-digit level numbers)
Adf15DocsAll == {[kind |-> "adf15", header |-> h, nb |-> nb, nd |-> nd, nt |-> nt, perm |-> p, missing |-> ms, rule |-> ru] :
                 h \in {"hydrogen", "hydrogen-like", "full"}, nb \in {1, 2, 3, 11}, nd \in (IF Deep THEN {1, 3, 8, 9, 16, 17} ELSE {1, 3, 9}), nt \in (IF Deep THEN {2, 7, 8, 9, 11, 17} ELSE {2, 8, 11}), p \in BOOLEAN, ms \in {"none", "extra", "low"}, ru \in BOOLEAN}
Adf15Docs == {d \in Adf15DocsAll : d.nb = 11 => d.header # "full"}
\* missing: "extra" - the index lists one block more than the file holds; "low" - the data block ISEL = 1 is not in the file
\* although the index lists it (with eleven blocks the file then still holds blocks 10 and 11, whose numbers begin with a 1)
BlockType(k) == CASE k % 3 = 1 -> "excitation" [] k % 3 = 2 -> "recombination" [] k % 3 = 0 -> "thermalcx"
\* with perm the index table lists the blocks in reverse order: the assignment must follow ISEL, not position
\* full-configuration headers name a level by its configuration and term: the total orbital quantum number L is written as its
\* spectroscopic letter, S P D F G H I K L M N O Q R for L = 0..13 (no J); the levels of the synthetic table cycle through L
TermLetters == <<"S", "P", "D", "F", "G", "H", "I", "K", "L", "M", "N", "O", "Q", "R">>
LevelL(lev) == (5 * lev) % 14
ASSUME "J" \notin {TermLetters[i] : i \in 1..14} /\ \A i, j \in 1..14 : TermLetters[i] = TermLetters[j] => i = j
Expected15(d) == [blocks |-> [k \in 1..d.nb |-> [isel |-> k, cls |-> BlockType(k), upper |-> k + 2, lower |-> k + 1, wavelength_A |-> 1000 * k + 5]],
                  levels |-> [lev \in 1..(d.nb + 4) |-> [L |-> LevelL(lev), letter |-> TermLetters[LevelL(lev) + 1]]],
                  outcome |-> IF d.missing # "none" THEN "RuntimeError" ELSE "ok"]

\* ADF12: nblk blocks of five 1-D tables with fixed capacities 24 / 12 and the counts actually used
Adf12Docs == {[kind |-> "adf12", nblk |-> nb, neb |-> a, nti |-> b, nni |-> cc, nz |-> dd, nbm |-> e] :
                 nb \in 1..2, a \in {1, 7, 24}, b \in {1, 12}, cc \in {2, 13}, dd \in {1, 5}, e \in {1, 4}}

Docs == (IF "adf11" \in Kinds THEN {d \in Adf11Docs : Adf11OK(d)} ELSE {}) \cup (IF "adf2x" \in Kinds THEN Adf2xDocs ELSE {})
        \cup (IF "adf15" \in Kinds THEN Adf15Docs ELSE {}) \cup (IF "adf12" \in Kinds THEN Adf12Docs ELSE {})

VARIABLE doc
Init == doc \in Docs
Next == UNCHANGED doc
Spec == Init /\ [][Next]_doc

\* conventions: every block keeps a distinct non-negative charge key; Val is injective on its range
ChargesDistinct == doc.kind = "adf11" => LET E == Expected11(doc) IN
                      \A b1, b2 \in doc.zmin..doc.zmax : (b1 # b2 => E.blocks[b1].charge # E.blocks[b2].charge) /\ E.blocks[b1].charge >= 0
ValInjective == \A b1, b2 \in 1..3, i1, i2 \in 1..3, j1, j2 \in 1..3 : Val(b1, i1, j1) = Val(b2, i2, j2) => (b1 = b2 /\ i1 = i2 /\ j1 = j2)

EmitCase == PrintT(ToJson([doc |-> doc, exp |-> CASE doc.kind = "adf11" -> Expected11(doc) [] doc.kind = "adf2x" -> Expected2x(doc)
                                                  [] doc.kind = "adf15" -> Expected15(doc) [] OTHER -> [outcome |-> "ok"]]))
=============================================================================
