----------------------------- MODULE Rational -----------------------------
(* Exact rationals <<n, d>>, d > 0, always normalised by the gcd.  TLC integers are 32-bit and TLC aborts on  *)
(* overflow (never wraps), so models keep their constants small.                                             *)
EXTENDS Integers
RECURSIVE GCD(_, _)
GCD(a, b) == IF b = 0 THEN (IF a < 0 THEN -a ELSE a) ELSE GCD(b, a % b)
RNorm(n, d) == LET s == IF d < 0 THEN -1 ELSE 1  g == GCD(IF n < 0 THEN -n ELSE n, IF d < 0 THEN -d ELSE d)
               IN IF g = 0 THEN <<0, 1>> ELSE <<(s * n) \div g, (s * d) \div g>>
R(n) == <<n, 1>>
\* sums over the least common denominator, products cross-reduced first: keeps intermediate values small
RAdd(a, b) == LET g == GCD(a[2], b[2]) IN RNorm(a[1] * (b[2] \div g) + b[1] * (a[2] \div g), (a[2] \div g) * b[2])
RSub(a, b) == RAdd(a, <<-b[1], b[2]>>)
RMul(a, b) == LET g1 == GCD(IF a[1] < 0 THEN -a[1] ELSE a[1], b[2])  g2 == GCD(IF b[1] < 0 THEN -b[1] ELSE b[1], a[2])
              IN IF a[1] = 0 \/ b[1] = 0 THEN <<0, 1>> ELSE RNorm((a[1] \div g1) * (b[1] \div g2), (a[2] \div g2) * (b[2] \div g1))
RDiv(a, b) == RMul(a, IF b[1] < 0 THEN <<-b[2], -b[1]>> ELSE <<b[2], b[1]>>)
RLess(a, b) == a[1] * b[2] < b[1] * a[2]
RLeq(a, b) == a[1] * b[2] <= b[1] * a[2]
RAbs(a) == IF a[1] < 0 THEN <<-a[1], a[2]>> ELSE a
RMax0(a) == IF a[1] < 0 THEN <<0, 1>> ELSE a
=============================================================================
