------------------------------ MODULE FluxMap ------------------------------
(***************************************************************************)
(* C12 - mapping of flux functions onto flux surfaces                        *)
(* (cherab/tools/equilibrium/efit.pyx) for synthetic Solov'ev-type           *)
(* equilibria  psi(r, z) = s (A (r - R0)^2 + B z^2)  on an integer (r, z)    *)
(* grid, either sign s.  At grid nodes everything is exact: psi, its         *)
(* gradient (2 s A (r - R0), 2 s B z), normalised flux, the LCFS decision    *)
(* (inside the polygon AND psi_n <= 1), a linear profile of psi_n, and the   *)
(* un-normalised in-plane field / poloidal / normal directions.              *)
(* One TLC state per (equilibrium, node, toroidal angle).                    *)
(***************************************************************************)
EXTENDS Rational, Sequences, FiniteSets, TLC, Json

CONSTANTS Negs,      \* set of BOOLEAN: psi_lcfs - psi_axis negative?
          Deep       \* TRUE (thorough): more elongations / shapes of the flux surfaces

R0 == 4
Rs == 1..7
Zc == -3..3
\* LCFS polygon: the rectangle [3/2, 13/2] x [-5/2, 5/2] (half-integers: no node lies on its boundary)
PolyInside(r, z) == 2 * r > 3 /\ 2 * r < 13 /\ 2 * z > -5 /\ 2 * z < 5
\* limiter polygon: the L-shaped region (the rectangle above without its upper right corner r > 9/2, z > 1/2), concave,
\* vertices (3/2,-5/2) (13/2,-5/2) (13/2,1/2) (9/2,1/2) (9/2,5/2) (3/2,5/2)
LimInside(r, z) == PolyInside(r, z) /\ ~(2 * r > 9 /\ 2 * z > 1)
\* toroidal angles with rational (cos, sin)
Angles == << <<1, 0, 1>>, <<3, 4, 5>>, <<0, 1, 1>>, <<-4, 3, 5>>, <<-1, 0, 1>>, <<5, -12, 13>> >>      \* <<c, s, h>>: cos = c/h, sin = s/h

\* the r axis of the grid: evenly spaced (1..7), or stretched (spacing 1 up to r = 4, spacing 2 beyond).  The code forms the
\* gradient from differences in index space times the local d(index)/dr; for quadratic psi this is exact at nodes whose two
\* neighbours are equally far away (GradExact) - the other nodes of the stretched axis only carry the gradient-free quantities
RNodes(st) == IF st = 0 THEN 1..7 ELSE {1, 2, 3, 4, 6, 8, 10}
GradExact(st, rr) == st = 0 \/ rr \in {2, 3, 6, 8}
VARIABLES neg, A, B, r, z, ang, stretch,
          Z0,      \* height of the magnetic axis (0: up-down symmetric grid; 1: the axis sits one node above the midplane)
          C,       \* cross term: psi = s (A x^2 + B y^2 + C x y), x = r - R0, y = z - Z0 (tilted flux surfaces; 4 A B > C^2)
          off      \* the reported axis flux is s * off / 2: with off = 1 the gridded psi dips (marginally) beyond the reported
                   \* axis value around the magnetic axis, as it does in real EFIT output
vars == <<neg, A, B, r, z, ang, off, Z0, C, stretch>>
Init == neg \in Negs /\ A \in (IF Deep THEN {1, 2, 3, 5} ELSE {1, 2}) /\ B \in (IF Deep THEN {1, 2, 3, 7} ELSE {1, 3}) /\ stretch \in {0, 1} /\ r \in RNodes(stretch) /\ z \in Zc /\ ang \in 1..Len(Angles) /\ off \in {0, 1}
        /\ (off = 1 => ang = 1)
        /\ Z0 \in {0, 1} /\ C \in {0, 1} /\ (off = 1 => C = 0)
        /\ (stretch = 1 => off = 0 /\ ang \in {1, 2})
Next == UNCHANGED vars
Spec == Init /\ [][Next]_vars

Sgn == IF neg THEN -1 ELSE 1
Psi(rr, zz) == Sgn * (A * (rr - R0) * (rr - R0) + B * (zz - Z0) * (zz - Z0) + C * (rr - R0) * (zz - Z0))
PsiAxis == <<Sgn * off, 2>>
PsiLcfs == Sgn * (A * 4 + B + 2 * C)        \* the surface through (R0 + 2, Z0 + 1)
\* normalised flux (psi - psi_axis) / (psi_lcfs - psi_axis), clamped at 0 (everywhere, also between the nodes: the
\* harness evaluates the non-negativity at quarter points of the cells around each node)
PsiN == LET q == RDiv(RSub(R(Psi(r, z)), PsiAxis), RSub(R(PsiLcfs), PsiAxis)) IN IF q[1] < 0 THEN R(0) ELSE q
Inside == PolyInside(r, z) /\ RLeq(PsiN, R(1))
\* a linear profile p(x) = 3 + 2 x of the normalised flux, and the value given outside
Profile == RAdd(R(3), RMul(R(2), PsiN))
Outside == <<-7, 1>>
Map2D == IF Inside THEN Profile ELSE Outside
\* toroidal field times r: the current flux function F(psi_n) = 6 + 3 psi_n inside the LCFS, the vacuum value 2 x 4 outside
BtR == IF Inside THEN RAdd(R(6), RMul(R(3), PsiN)) ELSE R(8)

\* gradient of psi and the un-normalised in-plane directions (x r): B_r = -psi_z / r, B_z = psi_r / r
PsiR == Sgn * (2 * A * (r - R0) + C * (z - Z0))
PsiZ == Sgn * (2 * B * (z - Z0) + C * (r - R0))
PolDir == <<-PsiZ, 0, PsiR>>                \* along the in-plane field
NrmDir == <<-PsiR, 0, -PsiZ>>               \* poloidal x toroidal
Degenerate == PsiR = 0 /\ PsiZ = 0          \* magnetic axis: no in-plane field

\* the flux function may be given in any unit: multiplied by 10^e, the normalised flux, the masks, the mapped profiles and
\* the poloidal / normal directions are unchanged and the in-plane field scales with it (compared for these exponents)
PsiScaleExps == <<0, -6, 3>>

\* ---- properties at every node
PsiNNonNegative == PsiN[1] >= 0
Orthogonal == PolDir[1] * NrmDir[1] + PolDir[3] * NrmDir[3] = 0
NormalIsPolCrossTor == NrmDir = <<-PolDir[3], 0, PolDir[1]>>
FieldHasNoNormalComponent == (-PsiZ) * NrmDir[1] + PsiR * NrmDir[3] = 0
SameLength == PolDir[1] * PolDir[1] + PolDir[3] * PolDir[3] = NrmDir[1] * NrmDir[1] + NrmDir[3] * NrmDir[3]
\* the mapped function is constant on flux surfaces: nodes mirrored in z have the same value
UpDownSymmetric == (Z0 = 0 /\ C = 0) => Psi(r, z) = Psi(r, -z)
PositiveDefinite == 4 * A * B > C * C

EmitCase == PrintT(ToJson([stretch |-> stretch, rnodes |-> RNodes(stretch), grad_exact |-> GradExact(stretch, r), Z0 |-> Z0, C |-> C, off |-> off, neg |-> neg, inside_limiter |-> LimInside(r, z), A |-> A, B |-> B, r |-> r, z |-> z, angle |-> Angles[ang], psin |-> PsiN, inside |-> Inside,
                           map2d |-> Map2D, bt_r |-> BtR, psi_axis |-> PsiAxis, psi_lcfs |-> PsiLcfs, grad |-> <<PsiR, PsiZ>>,
                           pol |-> PolDir, nrm |-> NrmDir, degenerate |-> Degenerate]))
=============================================================================
