----------------------------- MODULE Instrument -----------------------------
(***************************************************************************)
(* C16 - spectroscopic instruments (cherab/tools/spectroscopy/*.py).         *)
(* An instrument has parameters and lazily computed settings; every setter   *)
(* clears the settings that depend on the parameter, every getter fills the  *)
(* cleared ones from the *current* parameters.  Kind selects the class:      *)
(*   "spectrometer"  Spectrometer(wavelength_to_pixel, min_bins_per_pixel, name) *)
(*   "czerny"        CzernyTurnerSpectrometer(order, grating, focal, spacing, angle, accommodated, mbp, name) *)
(*   "polychromator" Polychromator(filters, min_bins_per_window, name)       *)
(* Parameter values are small integers (ids); for the spectrometer and the   *)
(* polychromator the ids denote the integer pixel layouts / filter sets      *)
(* below, for which the settings are computed exactly.                       *)
(***************************************************************************)
EXTENDS Integers, Sequences, FiniteSets, TLC, Json

CONSTANTS Kind, MaxHist

VARIABLES par,      \* [Params -> value id]
          cache,    \* [Caches -> <<>> (cleared) or <<snapshot of the parameters it was computed from>>]
          used,     \* ghost: reads that keep nothing (calibrate) made since the last parameter change - part of the explored
                    \* state, so that "read, then change" histories are distinct from "change" alone
          outcome, hist
vars == <<par, cache, used, outcome, hist>>

Params == CASE Kind = "spectrometer"  -> {"w2p", "mbp", "name"}
            [] Kind = "czerny"        -> {"order", "grating", "focal", "spacing", "angle", "acc", "mbp", "name"}
            [] Kind = "polychromator" -> {"filters", "mbw", "name"}
Values(p) == IF p \in {"w2p", "acc"} THEN 1..6          \* 4: spectra listed in descending order, 5: a short spectrum nested in a wide one, 6: the short one listed first
             ELSE IF p = "filters" THEN 1..5         \* 4: a narrow filter listed before a broad one that contains it, 5: overlapping, descending
             ELSE IF p \in {"mbp", "mbw"} THEN {1, 2, 4}
             ELSE 1..2
\* values the setter must refuse (ValueError) leaving everything unchanged; 0 / -1 are the ids of invalid inputs
Invalid(p) == IF p \in {"mbp", "mbw", "order", "grating", "focal", "spacing", "angle"} THEN {0, -1}
              ELSE IF p \in {"w2p", "acc"} THEN {0, -1, -2} ELSE {}

Caches == CASE Kind = "spectrometer"  -> {"spectral", "classes", "kwargs"}
            [] Kind = "czerny"        -> {"w2p", "spectral", "classes", "kwargs"}
            [] Kind = "polychromator" -> {"spectral", "classes", "kwargs"}

\* what each derived setting is a function of
Dep(c) == CASE Kind = "spectrometer" ->
                 (CASE c = "spectral" -> {"w2p", "mbp"} [] c = "classes" -> {} [] c = "kwargs" -> {"name"})
            [] Kind = "czerny" ->
                 (CASE c = "w2p" -> {"order", "grating", "focal", "spacing", "angle", "acc"}
                    [] c = "spectral" -> {"order", "grating", "focal", "spacing", "angle", "acc", "mbp"}
                    [] c = "classes" -> {} [] c = "kwargs" -> {"name"})
            [] Kind = "polychromator" ->
                 (CASE c = "spectral" -> {"filters", "mbw"} [] c = "classes" -> {"filters"} [] c = "kwargs" -> {"filters", "name"})
Proj(c, pr) == [p \in Dep(c) |-> pr[p]]
\* settings computed eagerly inside setters (CzernyTurner rebuilds its pixel arrays at once)
Eager == IF Kind = "czerny" THEN {"w2p"} ELSE {}

\* public read-outs and the settings each one needs
\* calibrate(spectrum) (spectrometers only) reads the pixel arrays and keeps nothing
\* "all": the caller reads every public read-out of the instrument (ranges, bins, pixel arrays, pixel-centre wavelengths,
\* pipelines, parameters, a calibration) - whatever the class keeps lazily, named here or not, is filled by it
Getters == {"spectral", "classes", "kwargs", "create_pipelines", "all"} \cup (IF Kind = "polychromator" THEN {} ELSE {"calibrate"})
Fills(g) == IF g = "create_pipelines" THEN {"classes", "kwargs"} ELSE IF g = "calibrate" THEN {} ELSE IF g = "all" THEN Caches ELSE {g}

Init == /\ par \in [Params -> {1}] \cup [Params -> {2}]
        /\ cache = [c \in Caches |-> IF c \in Eager THEN <<Proj(c, par)>> ELSE <<>>]
        /\ outcome = "ok" /\ used = {}
        /\ hist = <<[op |-> "init", par |-> par]>>

Log(e) == hist' = Append(hist, e)

\* what each setter of the classes clears / rebuilds (transcribed from the setters; Dep above is what the *formulas* read):
\*   Spectrometer: wavelength_to_pixel, min_bins_per_pixel -> _clear_spectral_settings; name -> pipeline kwargs
\*   CzernyTurner: optics + accommodated_spectra -> _update_wavelength_to_pixel (rebuilds w2p, clears spectral)
\*   Polychromator: filters -> spectral, classes, kwargs; min_bins_per_window -> spectral; name -> kwargs
Clears(p) == CASE Kind = "spectrometer" ->
                   (CASE p \in {"w2p", "mbp"} -> {"spectral"} [] p = "name" -> {"kwargs"})
              [] Kind = "czerny" ->
                   (CASE p \in {"order", "grating", "focal", "spacing", "angle", "acc"} -> {"w2p", "spectral"}
                      [] p = "mbp" -> {"spectral"} [] p = "name" -> {"kwargs"})
              [] Kind = "polychromator" ->
                   (CASE p = "filters" -> {"spectral", "classes", "kwargs"} [] p = "mbw" -> {"spectral"} [] p = "name" -> {"kwargs"})

\* instrument.<p> = v
Set(p, v) ==
    /\ par' = [par EXCEPT ![p] = v]
    /\ cache' = [c \in Caches |-> IF c \in Clears(p) THEN (IF c \in Eager THEN <<Proj(c, par')>> ELSE <<>>) ELSE cache[c]]
    /\ outcome' = "ok" /\ used' = {}
    /\ Log([op |-> "set", p |-> p, v |-> v])

\* instrument.<p> = <invalid>: ValueError, nothing changes
SetInvalid(p, v) ==
    /\ outcome' = "ValueError"
    /\ UNCHANGED <<par, cache, used>>
    /\ Log([op |-> "set", p |-> p, v |-> v])

\* reading a setting: computed from the current parameters if it was cleared
Get(g) ==
    /\ cache' = [c \in Caches |-> IF c \in Fills(g) /\ cache[c] = <<>> THEN <<Proj(c, par)>> ELSE cache[c]]
    /\ outcome' = "ok" /\ used' = (IF g \in {"calibrate", "all"} THEN used \cup {g} ELSE used)
    /\ UNCHANGED par
    /\ Log([op |-> "get", g |-> g])

NextStep == \/ \E p \in Params : \E v \in Values(p) : Set(p, v)
            \/ \E p \in Params : \E v \in Invalid(p) : SetInvalid(p, v)
            \/ \E g \in Getters : Get(g)
Next == Len(hist) <= MaxHist /\ NextStep
Spec == Init /\ [][Next]_vars

\* C16 on the model: whatever is cached was computed from the parameters we have now
NoStale == \A c \in Caches : cache[c] # <<>> => cache[c][1] = Proj(c, par)
EagerAlwaysFilled == \A c \in Eager : cache[c] # <<>>

-----------------------------------------------------------------------------
\* Exact settings for the integer layouts / filter sets the ids denote.

Layout(i) == CASE i = 1 -> << <<500, 501, 502, 504>> >>
               [] i = 2 -> << <<400, 402, 404>>, <<600, 601, 603>> >>
               [] i = 3 -> << <<300, 304, 308, 312>> >>
               [] i = 4 -> << <<600, 601, 603>>, <<400, 402, 404>> >>
               [] i = 5 -> << <<400, 410, 420, 430>>, <<405, 406, 407>> >>
               [] i = 6 -> << <<405, 406, 407>>, <<400, 410, 420, 430>> >>
\* filters as <<central wavelength, window>>: trapezoidal ones in sets 1 - 3, tabulated transmission curves handed over with
\* their wavelengths listed downwards in sets 4 and 5 (the range a filter covers does not depend on how its table is listed)
FilterSet(i) == CASE i = 1 -> << <<500, 4>> >>
                  [] i = 2 -> << <<500, 4>>, <<656, 2>> >>
                  [] i = 3 -> << <<434, 8>>, <<656, 2>>, <<500, 4>> >>
                  [] i = 4 -> << <<656, 2>>, <<655, 30>> >>
                  [] i = 5 -> << <<660, 8>>, <<656, 6>>, <<650, 10>> >>

\* the tables, for the conformance harness
ASSUME PrintT(ToJson([tables |-> Kind, layouts |-> [i \in 1..6 |-> Layout(i)], filtersets |-> [i \in 1..5 |-> FilterSet(i)]]))

SetMin(S) == CHOOSE x \in S : \A y \in S : x <= y
SetMax(S) == CHOOSE x \in S : \A y \in S : x >= y
CeilDiv(a, b) == IF a % b = 0 THEN a \div b ELSE (a \div b) + 1

\* intervals (pixels / filter windows) as <<lo, hi>>; filters are given by 2*lo, 2*hi to stay in integers
Intervals(pr) ==
    IF Kind = "spectrometer"
    THEN LET L == Layout(pr["w2p"]) IN UNION {{<<2 * L[k][i], 2 * L[k][i + 1]>> : i \in 1..(Len(L[k]) - 1)} : k \in DOMAIN L}
    ELSE LET F == FilterSet(pr["filters"]) IN {<<2 * F[k][1] - F[k][2], 2 * F[k][1] + F[k][2]>> : k \in DOMAIN F}
MinBins(pr) == IF Kind = "spectrometer" THEN pr["mbp"] ELSE pr["mbw"]
ExpMin2(pr) == SetMin({iv[1] : iv \in Intervals(pr)})          \* twice the lower bound
ExpMax2(pr) == SetMax({iv[2] : iv \in Intervals(pr)})
Narrowest2(pr) == SetMin({iv[2] - iv[1] : iv \in Intervals(pr)})
ExpBins(pr) == CeilDiv((ExpMax2(pr) - ExpMin2(pr)) * MinBins(pr), Narrowest2(pr))
Exact == Kind \in {"spectrometer", "polychromator"}

\* the property's inequalities hold for the exact settings
RangeCovers == Exact => \A iv \in Intervals(par) : ExpMin2(par) <= iv[1] /\ iv[2] <= ExpMax2(par)
BinWidthBound == Exact => (ExpMax2(par) - ExpMin2(par)) * MinBins(par) <= Narrowest2(par) * ExpBins(par)

View == <<par, cache, used, outcome>>
Emit == PrintT(ToJson([h |-> hist', par |-> par', outcome |-> outcome',
                       exact |-> IF Exact THEN <<ExpMin2(par'), ExpMax2(par'), ExpBins(par')>> ELSE <<>>]))
=============================================================================
