------------------------------ MODULE Provider ------------------------------
(***************************************************************************)
(* C07 - the decision table of the OpenADAS atomic-data provider             *)
(* (cherab/openadas/openadas.py + rates/*.pyx): which outcome a query must   *)
(* have, as a function of the accessor, the kind of species asked for, what  *)
(* the repository holds, the three provider flags and the class of the       *)
(* evaluation argument.  One TLC state per row; Outcome is the documented    *)
(* policy, the harness executes every row on a real OpenADAS object.         *)
(***************************************************************************)
EXTENDS Integers, Sequences, FiniteSets, TLC, Json

\* accessor -> [axes it is evaluated on, photon coefficient?, species arguments]
Acc == [ionisation_rate              |-> [axes |-> <<"ne", "te">>, photon |-> FALSE],
        recombination_rate           |-> [axes |-> <<"ne", "te">>, photon |-> FALSE],
        thermal_cx_rate              |-> [axes |-> <<"ne", "te">>, photon |-> FALSE],
        line_radiated_power_rate     |-> [axes |-> <<"ne", "te">>, photon |-> FALSE],
        continuum_radiated_power_rate|-> [axes |-> <<"ne", "te">>, photon |-> FALSE],
        cx_radiated_power_rate       |-> [axes |-> <<"ne", "te">>, photon |-> FALSE],
        impact_excitation_pec        |-> [axes |-> <<"ne", "te">>, photon |-> TRUE],
        recombination_pec            |-> [axes |-> <<"ne", "te">>, photon |-> TRUE],
        thermal_cx_pec               |-> [axes |-> <<"ne", "te", "td">>, photon |-> TRUE],
        beam_stopping_rate           |-> [axes |-> <<"e", "n", "t">>, photon |-> FALSE],
        beam_population_rate         |-> [axes |-> <<"e", "n", "t">>, photon |-> FALSE],
        beam_emission_pec            |-> [axes |-> <<"e", "n", "t">>, photon |-> TRUE],
        beam_cx_pec                  |-> [axes |-> <<"eb", "ti", "ni", "z", "b">>, photon |-> TRUE]]
Accessors == DOMAIN Acc
TwoSpecies == {"thermal_cx_rate", "thermal_cx_pec", "beam_stopping_rate", "beam_population_rate", "beam_emission_pec", "beam_cx_pec"}
\* axes whose non-positive argument must give zero (density, temperature, energy); Zeff and |B| are not in the statement
Zeroing == {"ne", "te", "td", "e", "n", "t", "eb", "ti", "ni"}
Rng(s) == {s[i] : i \in 1..Len(s)}

ArgClasses(a) == {<<"grid">>, <<"inside">>} \cup
                 {<<"nonpos", x>> : x \in Rng(Acc[a].axes) \cap Zeroing} \cup
                 {<<k, x>> : k \in {"below", "above"}, x \in Rng(Acc[a].axes)}

\* wavelength availability in the repository for the line asked for
WlStates == {"both", "element_only", "isotope_only", "none"}

\* axes a stored table may give as a single point (the beam classes fall back to constants / 1-D interpolators per axis)
SingleAxes(a) == CASE a \in {"beam_stopping_rate", "beam_population_rate", "beam_emission_pec"} -> {"e", "n"}
                   [] a = "beam_cx_pec" -> {"eb", "ti", "ni", "z", "b"}
                   [] OTHER -> {}
AllAxes == {"ne", "te", "td", "e", "n", "t", "eb", "ti", "ni", "z", "b"}
\* the table as a union of three families (one filtered product over all fields at once is needlessly large for TLC)
\* 1. the decision table proper: every flag combination, smooth tables, both species arguments of the same kind
BaseCases == {c \in [acc : Accessors, species : {"element", "isotope"}, present : BOOLEAN, wl : WlStates,
                     extrap : BOOLEAN, null : BOOLEAN, fallback : BOOLEAN, arg : UNION {ArgClasses(a) : a \in Accessors},
                     shape : SUBSET {"e", "n", "eb", "ti", "ni", "z", "b"}, drop : {"none"}, species2 : {"same"}, lattice : {"decades"}, before : {"none"}] :
            /\ c.arg \in ArgClasses(c.acc)
            /\ (~Acc[c.acc].photon => c.wl = "both")                       \* wavelength irrelevant
            /\ c.shape \subseteq SingleAxes(c.acc)                         \* shape = the set of single-point axes of the stored table
            \* partial single-point layouts are explored for the plain lookup only, none / all with every flag combination
            /\ (c.shape \notin {{}, SingleAxes(c.acc)} => c.present /\ c.wl = "both" /\ ~c.null /\ ~c.fallback)
            \* the range policy of a single-point axis itself is not in the statement
            /\ (c.arg[1] \in {"below", "above"} => c.arg[2] \notin c.shape)}
\* 2. drop = x: along axis x the stored table falls by four orders of magnitude after its first node (high, low, low), so that a
\*    cubic interpolant through it dips below zero between the last two nodes; explored for the plain lookup
DropCases == {c \in [acc : Accessors, species : {"element"}, present : {TRUE}, wl : {"both"}, extrap : {FALSE}, null : {FALSE},
                     fallback : {FALSE}, arg : {<<"grid">>, <<"inside">>}, shape : {{}}, drop : AllAxes, species2 : {"same"}, lattice : {"decades"}, before : {"none"}] :
            c.drop \in Rng(Acc[c.acc].axes)}
\* 3. species2 = "other": accessors taking two species (donor / beam and receiver / target) asked with one element and one
\*    isotope; isotopes use their element's rates in either position
Species2Cases == [acc : TwoSpecies, species : {"element", "isotope"}, present : {TRUE}, wl : {"both"}, extrap : BOOLEAN, null : BOOLEAN,
                  fallback : {FALSE}, arg : {<<"grid">>, <<"inside">>}, shape : {{}}, drop : {"none"}, species2 : {"other"}, lattice : {"decades"}, before : {"none"}]
\* 4. lattice = "physical": the axes of the stored table do not end on powers of ten (first / last nodes such as 1e15 m^-3, 0.2 eV,
\*    5000 eV, whose logarithms are not exactly representable): the table's own edge nodes are grid points like any other, and
\*    the range policy starts beyond them
LatticeCases == {c \in [acc : Accessors, species : {"element"}, present : {TRUE}, wl : {"both"}, extrap : BOOLEAN, null : {FALSE},
                        fallback : {FALSE}, arg : UNION {ArgClasses(a) : a \in Accessors}, shape : {{}}, drop : {"none"},
                        species2 : {"same"}, lattice : {"physical"}, before : {"none"}] : c.arg \in ArgClasses(c.acc)}
\* 5. before = "other_kind": the same provider object has already been asked for the same line of the other species kind (the
\*    isotope before the element, the element before the isotope); what it returned then has no bearing on this request - the
\*    rates are the element's either way, the wavelength is the requested species' own
BeforeCases == [acc : Accessors, species : {"element", "isotope"}, present : {TRUE}, wl : {"both", "element_only"}, extrap : {FALSE},
                null : {FALSE}, fallback : BOOLEAN, arg : {<<"grid">>}, shape : {{}}, drop : {"none"}, species2 : {"same"},
                lattice : {"decades"}, before : {"other_kind"}]
Cases == BaseCases \cup DropCases \cup Species2Cases \cup LatticeCases \cup BeforeCases

\* which stored wavelength the photon->power conversion must use: the requested species' own, else (isotope, fallback on) its element's
WlUsed(c) == IF c.species = "element" THEN (IF c.wl \in {"both", "element_only"} THEN "element" ELSE "missing")
             ELSE IF c.wl \in {"both", "isotope_only"} THEN "isotope"
             ELSE IF c.fallback /\ c.wl = "element_only" THEN "element" ELSE "missing"

Outcome(c) ==
    IF ~c.present THEN (IF c.null THEN <<"null_zero">> ELSE <<"raise", "RuntimeError">>)
    ELSE IF Acc[c.acc].photon /\ WlUsed(c) = "missing"
         THEN (IF c.null THEN <<"unspecified">> ELSE <<"raise", "RuntimeError">>)
    ELSE LET conv == IF Acc[c.acc].photon THEN <<"photon", WlUsed(c)>> ELSE <<"none">> IN
         CASE c.arg[1] = "grid"   -> <<"table_value", conv>>
           [] c.arg[1] = "inside" -> <<"finite_nonneg">>
           [] c.arg[1] = "nonpos" -> <<"zero">>
           [] OTHER               -> IF c.extrap THEN <<"finite_nonneg">> ELSE <<"raise", "ValueError">>

VARIABLE c
Init == c \in Cases
Next == UNCHANGED c
Spec == Init /\ [][Next]_c

\* the policy is total and the flags act uniformly over all accessors
Total == Outcome(c)[1] \in {"null_zero", "raise", "unspecified", "table_value", "finite_nonneg", "zero"}
MissingPolicyUniform == ~c.present => \A a \in Accessors : Outcome([c EXCEPT !.acc = a]) = Outcome(c)
\* the rates themselves never depend on the isotope (only the wavelength does)
IsotopeUsesElementRates == (c.present /\ ~Acc[c.acc].photon) => Outcome([c EXCEPT !.species = "element"]) = Outcome([c EXCEPT !.species = "isotope"])
\* flags the outcome must not depend on
\* the policy does not depend on the numbers stored
Species2Irrelevant == (c.present /\ ~Acc[c.acc].photon) => Outcome([c EXCEPT !.species2 = "same"]) = Outcome([c EXCEPT !.species2 = "other"])
DropIrrelevant == Outcome([c EXCEPT !.drop = "none"]) = Outcome(c)
LatticeIrrelevant == Outcome([c EXCEPT !.lattice = "decades"]) = Outcome(c)
BeforeIrrelevant == Outcome([c EXCEPT !.before = "none"]) = Outcome(c)
ExtrapOnlyOutside == c.arg[1] \in {"grid", "inside", "nonpos"} => Outcome([c EXCEPT !.extrap = TRUE]) = Outcome([c EXCEPT !.extrap = FALSE])

EmitCase == PrintT(ToJson([case |-> c, outcome |-> Outcome(c)]))
=============================================================================
