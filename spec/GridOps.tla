------------------------------ MODULE GridOps ------------------------------
(***************************************************************************)
(* C20 - derivative operators on a rectangular voxel grid and the ADMT       *)
(* (anisotropic diffusion) regularisation operator built from them           *)
(* (cherab/tools/inversions/admt_utils.py).  Cell centres lie at integer     *)
(* coordinates x = X0 + ix*DX, y = Y0 + iy*DY (the harness orders voxels top *)
(* to bottom within a column, as the code expects).  Fields are integer      *)
(* polynomials  p = <<c00, c10, c01, c20, c11, c02>> :                       *)
(*      p(x, y) = c00 + c10 x + c01 y + c20 x^2 + c11 x y + c02 y^2          *)
(* so every derivative is an integer at every centre.  A case says which     *)
(* operator applied to which field must give which exact value at which      *)
(* cell; the ADMT cases carry div(D grad f) in cylindrical geometry as an    *)
(* exact rational.  One TLC state per case.                                  *)
(***************************************************************************)
EXTENDS Integers, Sequences, FiniteSets, TLC, Json

CONSTANT Deep        \* TRUE (thorough): grids up to 6 x 6 cells, more spacings, ADMT also on unequal spacings and every interior cell

\* --- polynomials and their exact derivatives
P(p, x, y)   == p[1] + p[2] * x + p[3] * y + p[4] * x * x + p[5] * x * y + p[6] * y * y
Px(p, x, y)  == p[2] + 2 * p[4] * x + p[5] * y
Py(p, x, y)  == p[3] + p[5] * x + 2 * p[6] * y
Pxx(p) == 2 * p[4]
Pxy(p) == p[5]
Pyy(p) == 2 * p[6]
Deg(p) == IF p[4] # 0 \/ p[6] # 0 THEN 2 ELSE IF p[5] # 0 THEN 11 ELSE IF p[2] # 0 \/ p[3] # 0 THEN 1 ELSE 0   \* 11 = bilinear

Fields == {<<3, 0, 0, 0, 0, 0>>,        \* constant
           <<1, 2, 0, 0, 0, 0>>, <<-2, 0, 3, 0, 0, 0>>, <<4, -1, 2, 0, 0, 0>>,      \* linear
           <<0, 1, -1, 0, 2, 0>>, <<5, 0, 0, 0, -3, 0>>,                           \* bilinear
           <<1, 0, 0, 1, 0, 0>>, <<0, 1, 1, 0, 0, 2>>, <<2, -1, 0, 1, 1, -1>>}     \* quadratic

Grids == {[nx |-> nx, ny |-> ny, dx |-> dx, dy |-> dy, x0 |-> x0, y0 |-> y0] :
             nx \in 2..(IF Deep THEN 6 ELSE 4), ny \in 2..(IF Deep THEN 6 ELSE 4), dx \in (IF Deep THEN {1, 2, 5} ELSE {1, 2}), dy \in {1, 3}, x0 \in {1, 5}, y0 \in {-2}}
Ops == {"Dx", "Dy", "Dxx", "Dxy", "Dyy"}

CellClass(g, ix, iy) == LET l == ix = 0  r == ix = g.nx - 1  b == iy = 0  t == iy = g.ny - 1 IN
                        IF ~(l \/ r \/ b \/ t) THEN "interior" ELSE IF (l \/ r) /\ (b \/ t) THEN "corner" ELSE "edge"

\* where the statement demands exactness: constants everywhere (value 0), first derivatives on linear fields in every cell,
\* the mixed derivative on bilinear fields in every cell, second derivatives on quadratics in interior cells
Demanded(op, p, class) ==
    \/ Deg(p) = 0
    \/ op \in {"Dx", "Dy"} /\ Deg(p) = 1
    \/ op = "Dxy" /\ Deg(p) \in {1, 11}
    \/ op \in {"Dxx", "Dyy"} /\ class = "interior"
Exact(op, p, x, y) == CASE op = "Dx" -> Px(p, x, y) [] op = "Dy" -> Py(p, x, y) [] op = "Dxx" -> Pxx(p) [] op = "Dxy" -> Pxy(p) [] op = "Dyy" -> Pyy(p)

\* The voxels are handed over as a list; the two index maps say where each sits in the grid (column ix, row jy counted from the
\* top).  The order of the list is the caller's: column by column from the top (the docstring's), column by column from the
\* bottom, row by row, or columns from the right.  Number = position (from 0) of cell (ix, iy), iy counted upwards.
Orders == {"columns_down", "columns_up", "rows", "columns_from_right"}
Number(o, g, ix, iy) == CASE o = "columns_down"       -> ix * g.ny + (g.ny - 1 - iy)
                          [] o = "columns_up"         -> ix * g.ny + iy
                          [] o = "rows"               -> (g.ny - 1 - iy) * g.nx + ix
                          [] o = "columns_from_right" -> (g.nx - 1 - ix) * g.ny + (g.ny - 1 - iy)
Numbering(o, g) == {<<ix, iy, Number(o, g, ix, iy)>> : ix \in 0..(g.nx - 1), iy \in 0..(g.ny - 1)}

DerivCases(o) == {[kind |-> "deriv", order |-> o, g |-> g, op |-> op, p |-> p, ix |-> ix, iy |-> iy] :
                 g \in {gg \in Grids : gg.x0 = 1}, op \in Ops, p \in Fields, ix \in 0..(IF Deep THEN 5 ELSE 3), iy \in 0..(IF Deep THEN 5 ELSE 3)}

\* --- ADMT: D = Dperp n n^T + Dpar t t^T with n = grad(psi)/|grad(psi)|, Dpar = 1, Dperp = 1/a.
\* a * N^2 * R * div(D grad f) as an integer (N = |grad psi|^2, R = x):
Num(psi, f, a, x, y) ==
    LET sx == Px(psi, x, y)  sy == Py(psi, x, y)  sxx == Pxx(psi)  sxy == Pxy(psi)  syy == Pyy(psi)
        N  == sx * sx + sy * sy
        Nx == 2 * sx * sxx + 2 * sy * sxy
        Ny == 2 * sx * sxy + 2 * sy * syy
        A  == sx * sx + a * sy * sy              \* a * N * Dxx
        B  == (1 - a) * sx * sy                  \* a * N * Dxy
        C  == sy * sy + a * sx * sx              \* a * N * Dyy
        Ax == 2 * sx * sxx + 2 * a * sy * sxy
        By == (1 - a) * (sxy * sy + sx * syy)
        Bx == (1 - a) * (sxx * sy + sx * sxy)
        Cy == 2 * sy * syy + 2 * a * sx * sxy
    IN (A * Pxx(f) + 2 * B * Pxy(f) + C * Pyy(f)) * N * x
       + ((Ax * N - A * Nx + By * N - B * Ny) * x + A * N) * Px(f, x, y)
       + ((Bx * N - B * Nx + Cy * N - C * Ny) * x + B * N) * Py(f, x, y)
Den(psi, a, x, y) == LET N == Px(psi, x, y) * Px(psi, x, y) + Py(psi, x, y) * Py(psi, x, y) IN a * N * N * x

FluxMaps == {<<0, 1, 0, 0, 0, 0>>, <<0, 1, 2, 0, 0, 0>>,                    \* linear flux maps
             <<0, 1, 0, 1, 1, 2>>, <<0, 0, 0, 1, 0, 1>>, <<3, 2, 1, 1, 0, -1>>}   \* curved (quadratic) flux maps
\* (on non-square voxels only the cells next to the lower left corner: the exact integers stay within TLC's 32 bits)
AdmtCasesAll == {[kind |-> "admt", order |-> o, g |-> g, psi |-> psi, p |-> f, a |-> a, ix |-> ix, iy |-> iy] :
                o \in {"columns_down", "rows"}, g \in {gg \in Grids : gg.nx >= 3 /\ gg.ny >= 3 /\ <<gg.dx, gg.dy>> \in {<<1, 1>>, <<2, 3>>, <<2, 1>>} /\ gg.x0 = 1},      \* square and non-square voxels
                psi \in FluxMaps, f \in {<<3, 0, 0, 0, 0, 0>>, <<4, -1, 2, 0, 0, 0>>, <<2, -1, 0, 1, 1, -1>>, <<0, 1, 1, 0, 0, 2>>},
                a \in {1, 2, 10}, ix \in 1..(IF Deep THEN 4 ELSE 2), iy \in 1..(IF Deep THEN 4 ELSE 2)}
AdmtCases == {cc \in AdmtCasesAll : <<cc.g.dx, cc.g.dy>> # <<1, 1>> => cc.ix <= 2 /\ cc.iy <= 2}

\* the derivative operators are homogeneous in the length unit: on the same grid measured in units of 10^e the first-derivative
\* rows are divided by 10^e and the second-derivative rows by 10^2e (compared by the harness for these exponents)
UnitExps == <<0, -3, 3>>
\* only the direction of grad psi enters D: the ADMT operator is unchanged when the flux map is multiplied by 10^e
FluxScaleExps == <<0, -8, 8>>
\* (the flux maps take integer values at the cell centres: handed over as an integer array they give the same operator)
VARIABLE c
Init == (\E o \in Orders : c \in DerivCases(o)) \/ c \in AdmtCases
Next == UNCHANGED c
Spec == Init /\ [][Next]_c

InGrid == c.ix < c.g.nx /\ c.iy < c.g.ny
NumberingIsBijective == \A o \in Orders : {t[3] : t \in Numbering(o, c.g)} = 0..(c.g.nx * c.g.ny - 1)
X == c.g.x0 + c.ix * c.g.dx
Y == c.g.y0 + c.iy * c.g.dy
Interior == CellClass(c.g, c.ix, c.iy) = "interior"
NonDegenerate == c.kind = "admt" => Den(c.psi, c.a, X, Y) # 0

\* the Laplacian limit: for anisotropy 1 the operator is d2/dx2 + d2/dy2 + (1/R) d/dx whatever the flux map
LaplacianLimit == (c.kind = "admt" /\ c.a = 1 /\ InGrid /\ Den(c.psi, 1, X, Y) # 0) =>
                     Num(c.psi, c.p, 1, X, Y) = Den(c.psi, 1, X, Y) * (Pxx(c.p) + Pyy(c.p)) + (Den(c.psi, 1, X, Y) \div X) * Px(c.p, X, Y)
AnnihilatesConstants == (c.kind = "admt" /\ Deg(c.p) = 0) => Num(c.psi, c.p, c.a, X, Y) = 0

EmitCase == IF ~InGrid THEN TRUE
            ELSE IF c.kind = "deriv"
                 THEN IF Demanded(c.op, c.p, CellClass(c.g, c.ix, c.iy))
                      THEN PrintT(ToJson([case |-> c, numbering |-> Numbering(c.order, c.g), x |-> X, y |-> Y, class |-> CellClass(c.g, c.ix, c.iy), expect |-> Exact(c.op, c.p, X, Y)]))
                      ELSE TRUE
                 ELSE IF Interior /\ Den(c.psi, c.a, X, Y) # 0
                      THEN PrintT(ToJson([case |-> c, numbering |-> Numbering(c.order, c.g), x |-> X, y |-> Y, num |-> Num(c.psi, c.p, c.a, X, Y), den |-> Den(c.psi, c.a, X, Y)]))
                      ELSE TRUE
=============================================================================
