----------------------------- MODULE VoxelGrid -----------------------------
(***************************************************************************)
(* C17 (grid part) - a ToroidalVoxelGrid as a collection whose members are   *)
(* fixed at construction; set_active / parent_all_voxels / unparent_all_voxels*)
(* only change which voxels are attached to the scene graph.  The total      *)
(* volume, the count and the members never change.                           *)
(***************************************************************************)
EXTENDS Integers, Sequences, FiniteSets, TLC, Json
CONSTANTS NVox, MaxHist
VARIABLES attached, hist          \* attached: set of voxel indices parented to the grid
vars == <<attached, hist>>
All == 0..(NVox - 1)
\* constructed with active = "all" (encoded as -1) or active = i
Init == \E a \in {-1} \cup All :
          /\ attached = IF a = -1 THEN All ELSE {a}
          /\ hist = <<[op |-> "init", active |-> a]>>
Log(e) == hist' = Append(hist, e)
SetActive(i) == attached' = {i} /\ Log([op |-> "set_active", i |-> i])
SetActiveAll == attached' = All /\ Log([op |-> "set_active_all"])
UnparentAll == attached' = {} /\ Log([op |-> "unparent_all"])
ParentAll == attached' = All /\ Log([op |-> "parent_all"])
ReadTotals == UNCHANGED attached /\ Log([op |-> "read"])
Next == /\ Len(hist) <= MaxHist
        /\ (\E i \in All : SetActive(i)) \/ SetActiveAll \/ UnparentAll \/ ParentAll \/ ReadTotals
Spec == Init /\ [][Next]_vars
\* what the grid reports is a function of its members only
MembersFixed == attached \subseteq All
Emit == PrintT(ToJson([h |-> hist', attached |-> attached', count |-> NVox]))
=============================================================================
