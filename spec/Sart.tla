-------------------------------- MODULE Sart --------------------------------
(***************************************************************************)
(* C11 - invert_sart / invert_constrained_sart (cherab/tools/inversions/     *)
(* sart.pyx) as a state machine over exact rationals.  One Iterate step is   *)
(* one pass of the documented update                                         *)
(*   x_l' = max(0, x_l + (w / W(+,l)) sum_k (W(k,l) / W(k,+)) (b_k - yhat_k) *)
(*                  - beta (L x)_l )                                         *)
(* (rows with W(k,+) = 0 are skipped, a voxel with W(+,l) = 0 only gets the  *)
(* penalty term), followed by conv = (b.b - yhat'.yhat') / b.b, and the      *)
(* iteration stops after max_iterations passes or as soon as (from the 2nd   *)
(* pass on) |conv_k - conv_(k-1)| < conv_tol.                                 *)
(***************************************************************************)
EXTENDS Rational, Sequences, FiniteSets, TLC, Json

CONSTANTS M, N,          \* measurements x voxels
          Entries,       \* matrix entries, e.g. {0, 1, 2}
          Meas,          \* measurement values
          MaxIter,
          Betas,         \* beta_laplace as <<num, den>> index set: 0 => unconstrained SART
          Relax,         \* relaxation index set
          LapKinds       \* kinds of regularisation matrix explored

VARIABLES W, b, x0, relax, beta, lap, k, x, conv, done
vars == <<W, b, x0, relax, beta, lap, k, x, conv, done>>

Rows == 1..M
Cols == 1..N
BetaVal(i) == CASE i = 0 -> <<0, 1>> [] i = 1 -> <<1, 2>> [] i = 2 -> <<1, 4>>
RelaxVal(i) == IF i = 1 THEN <<1, 1>> ELSE <<1, 2>>
Tol == <<1, 10000>>

RECURSIVE SumR(_, _)
SumR(f, n) == IF n = 0 THEN <<0, 1>> ELSE RAdd(f[n], SumR(f, n - 1))
RowSum(w, i) == SumR([j \in Cols |-> R(w[i][j])], N)
ColSum(w, j) == SumR([i \in Rows |-> R(w[i][j])], M)
YHat(w, xx) == [i \in Rows |-> SumR([j \in Cols |-> RMul(R(w[i][j]), xx[j])], N)]
Dot(u, v, n) == SumR([i \in 1..n |-> RMul(u[i], v[i])], n)
\* the regularisation matrix of a 1-D chain of voxels, by kind:
\*   "chain"   L_ll = number of neighbours, L_lc = -1 for neighbours            (symmetric)
\*   "rownorm" L_ll = 1, L_lc = -1 / number of neighbours of l                  (rows normalised: not symmetric for N >= 3)
\* the penalty of voxel l is (L x)_l = sum_c L_lc x_c  (row l of L, not column l)
Nb(l) == {c \in Cols : c = l - 1 \/ c = l + 1}
LMat(kind) == [l \in Cols |-> [c \in Cols |->
                 IF c = l THEN (IF kind = "chain" THEN R(Cardinality(Nb(l))) ELSE IF Nb(l) = {} THEN R(0) ELSE R(1))
                 ELSE IF c \in Nb(l) THEN (IF kind = "chain" THEN <<-1, 1>> ELSE RNorm(-1, Cardinality(Nb(l))))
                 ELSE R(0)]]
Lap(xx, l) == SumR([c \in 1..N |-> RMul(LMat(lap)[l][c], xx[c])], N)

Update(w, bb, xx, rl, bt) ==
    LET yh == YHat(w, xx) IN
    [l \in Cols |->
        LET pen == RMul(bt, Lap(xx, l))
            cs == ColSum(w, l)
        IN IF cs[1] > 0
           THEN LET diff == SumR([i \in Rows |-> IF RowSum(w, i)[1] = 0 THEN <<0, 1>>
                                                 ELSE RMul(RDiv(R(w[i][l]), RowSum(w, i)), RSub(R(bb[i]), yh[i]))], M)
                IN RMax0(RSub(RAdd(xx[l], RMul(RDiv(rl, cs), diff)), pen))
           ELSE RMax0(RSub(xx[l], pen))]
Conv(w, bb, xx) == LET yh == YHat(w, xx)  bb2 == Dot([i \in Rows |-> R(bb[i])], [i \in Rows |-> R(bb[i])], M)
                   IN RDiv(RSub(bb2, Dot(yh, yh, M)), bb2)

\* initial guesses: ones, zeros, a ramp, and one with a negative first entry (the iterate is clipped at zero in every voxel,
\* seen by a detector or not, so nothing negative survives the first step)
Guesses == {[j \in Cols |-> <<1, 1>>], [j \in Cols |-> <<0, 1>>], [j \in Cols |-> RNorm(j, 2)], [j \in Cols |-> IF j = 1 THEN <<-1, 2>> ELSE <<1, 1>>]}

Init == /\ W \in [Rows -> [Cols -> Entries]]
        /\ b \in [Rows -> Meas]
        /\ \E i \in Rows : b[i] # 0                      \* conv is undefined for a zero measurement vector
        /\ x0 \in Guesses
        /\ relax \in Relax /\ beta \in Betas
        /\ lap \in (IF beta = 0 THEN {"chain"} ELSE LapKinds)
        /\ k = 0 /\ x = x0 /\ conv = <<>> /\ done = FALSE

Iterate ==
    /\ ~done /\ k < MaxIter
    /\ x' = Update(W, b, x, RelaxVal(relax), BetaVal(beta))
    /\ conv' = Append(conv, Conv(W, b, x'))
    /\ k' = k + 1
    /\ done' = (k' = MaxIter \/ (k' >= 2 /\ RLess(RAbs(RSub(conv'[k'], conv'[k' - 1])), Tol)))
    /\ UNCHANGED <<W, b, x0, relax, beta, lap>>
Next == Iterate
Spec == Init /\ [][Next]_vars

\* the solution is never negative
NonNegative == k > 0 => \A l \in Cols : x[l][1] >= 0           \* (the guess itself may be negative somewhere)
\* an exact non-negative solution (W x0 = b, no penalty) is a fixed point
ExactSolutionIsFixedPoint ==
    ((\A l \in Cols : x0[l][1] >= 0) /\ (\A i \in Rows : YHat(W, x0)[i] = R(b[i])) /\ (beta = 0 \/ \A l \in Cols : Lap(x0, l)[1] = 0)) => x = x0
\* with a zero column the voxel nobody sees keeps its value in the unconstrained variant
UnseenVoxelKeepsValue == beta = 0 => \A l \in Cols : ColSum(W, l)[1] = 0 => x[l] = (IF k > 0 /\ x0[l][1] < 0 THEN <<0, 1>> ELSE x0[l])

\* the iteration is unchanged when the geometry matrix and the measurements are multiplied by the same factor (the update divides
\* by the row and column sums), so the iterate of (c W, c b) is the iterate of (W, b): compared at c = 10^e for these exponents
ScaleExps == <<0, 6, -12>>
EmitFinal == done => PrintT(ToJson([scale_exps |-> ScaleExps, W |-> W, b |-> b, x0 |-> x0, relax |-> RelaxVal(relax), beta |-> BetaVal(beta), lap |-> lap, L |-> LMat(lap), iters |-> k, x |-> x, conv |-> conv]))
=============================================================================
