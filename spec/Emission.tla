------------------------------ MODULE Emission ------------------------------
(***************************************************************************)
(* C03 / C05 - per-point composition rules of the emission models            *)
(* (cherab/core/model/plasma/*.pyx, cherab/core/model/beam/*.pyx): which      *)
(* species a model looks up, which coefficient it asks the provider for,      *)
(* which density multiplies which coefficient, and when the emission is zero. *)
(* Densities, temperatures and rate coefficients are small integers, so the   *)
(* wavelength-integrated emission times 4 pi is an exact integer (rational    *)
(* for the beam CX mean).  One TLC state per configuration.                   *)
(***************************************************************************)
EXTENDS Integers, Sequences, FiniteSets, TLC, Json

CONSTANTS Models,        \* models explored in this run
          Extra          \* extra positive density value(s), e.g. {} or {3}

DensVals == {-1, 0, 2} \cup Extra      \* densities incl. zero and a negative value
NeVals == {-1, 0, 2}
TeVals == {0, 3}

\* species universe: <<element symbol, charge, atomic number>>
Sp == [d0 |-> <<"d", 0, 1>>, d1 |-> <<"d", 1, 1>>, he1 |-> <<"he", 1, 2>>, c5 |-> <<"c", 5, 6>>, c6 |-> <<"c", 6, 6>>]
Names == DOMAIN Sp
Charge(s) == Sp[s][2]
Bare(s) == Sp[s][2] = Sp[s][3]
Idx(s) == CASE s = "d0" -> 1 [] s = "d1" -> 2 [] s = "he1" -> 3 [] s = "c5" -> 4 [] s = "c6" -> 5

\* integer rate coefficients, injective per (family, key)
Rate(fam, key) == CASE fam = "exc" -> 3 [] fam = "rec" -> 5
                    [] fam = "tcx" -> 7 + 2 * Idx(key)                 \* per donor
                    [] fam = "plt" -> 11 [] fam = "prb" -> 13 [] fam = "prc" -> 17
                    [] fam = "gaunt" -> 2 + key                        \* free-free Gaunt factor per ion charge
                    [] fam = "bcx" -> 19 + 4 * key                     \* per beam metastable (1, 2, 3)
                    [] fam = "bmp" -> 1 + Idx(key[1]) + 3 * (key[2] - 2)   \* beam population coefficient per <<target species, metastable>>
                    [] fam = "bes" -> 23 + 2 * Idx(key)                \* beam emission coefficient per target species

\* the rate table, for the mock provider of the conformance harness
ASSUME PrintT(ToJson([rates |-> [exc |-> Rate("exc", "d0"), rec |-> Rate("rec", "d1"), plt |-> Rate("plt", "c5"), prb |-> Rate("prb", "c6"), prc |-> Rate("prc", "c6"),
                                 gaunt |-> [z \in 1..6 |-> Rate("gaunt", z)], tcx |-> [s \in Names |-> Rate("tcx", s)],
                                 bmp |-> [s \in Names |-> <<Rate("bmp", <<s, 2>>), Rate("bmp", <<s, 3>>)>>],
                                 bes |-> [s \in Names |-> Rate("bes", s)], bcx |-> <<Rate("bcx", 1), Rate("bcx", 2), Rate("bcx", 3)>>]]))

VARIABLES model, dens, temp, ne, te, nb,
          zq,       \* beam CX: the excited beam metastable (2 or 3) whose CX coefficient is exactly zero at this point (0: none); its
                    \* population still counts in the mean's normalisation
          flow,     \* beam models: do the plasma species move (per-species bulk velocities Vel) or rest
          mag,      \* every density (electrons, species, beam) is multiplied by 10^mag: the totals are homogeneous of degree 2
          prior     \* what the model object was bound to and evaluated with before the configuration under test:
                    \* "none" (first use), "provider" (another atomic-data provider), "plasma" (another plasma),
                    \* "point" (the same plasma, non-uniform, evaluated before at a point where every species has other positive
                    \* densities and temperatures), "mutated" (the same plasma object held other distributions / another composition
                    \* when the model was evaluated before; for beam models the beam geometry was changed in between)
vars == <<model, dens, temp, ne, te, nb, prior, flow, mag, zq>>
MagExps == {0, -13, 9}          \* 1e10 m^-3 per unit: 2e-3 m^-3 ... 2e19 m^-3
\* species temperatures pairwise distinct and distinct from T_e (3), so a coefficient evaluated at another species' temperature shows
TempOf(s) == 3 + Idx(s)
Priors == {"none", "provider", "plasma", "point", "mutated"}
\* bremsstrahlung only: the model was evaluated, then given another (equivalent) wavelength integrator through its setter
\* beam line models: the model was evaluated for another line and then given this one through its setter
PriorsOf(m) == IF m = "brems" THEN Priors \cup {"integrator"} ELSE IF m \in {"bcx", "bes"} THEN Priors \cup {"reline"} ELSE Priors     \* (the passive line models take their line at construction only)
Absent == -9
Present == {s \in Names : dens[s] # Absent}
N(s) == dens[s]

Init == /\ model \in Models
        /\ dens \in [Names -> DensVals \cup {Absent}]
        /\ temp \in {[s \in Names |-> TempOf(s)], [s \in Names |-> IF s \in {"d0", "d1", "c6"} THEN 0 ELSE TempOf(s)]}
        /\ ne \in NeVals /\ te \in TeVals
        /\ nb \in (IF model \in {"bcx", "bes"} THEN {0, 4} ELSE {0})
        /\ flow \in (IF model \in {"bcx", "bes"} THEN BOOLEAN ELSE {FALSE})
        /\ prior \in (IF ne = 2 /\ te = 3 THEN PriorsOf(model) ELSE {"none"})      \* re-binding explored at the nominal electron state
        /\ zq \in (IF model = "bcx" /\ prior = "none" /\ ~flow THEN {0, 2, 3} ELSE {0})
        /\ mag \in (IF ne = 2 /\ te = 3 /\ prior = "none" /\ ~flow THEN MagExps ELSE {0})
        /\ (model \in {"bcx", "bes"} => /\ ne = 2 /\ te = 3 /\ \A s \in Names : dens[s] >= 0 \/ dens[s] = Absent
                                        \* an ionised species must be there for Z_eff - unless the CX receiver density is zero:
                                        \* the CX model returns before it asks for anything (no ion at all is then explored too)
                                        /\ \/ \E s \in Names : dens[s] > 0 /\ Charge(s) > 0
                                           \/ model = "bcx" /\ dens["c6"] = 0)

\* bulk velocity per species in tenths of the beam speed (beam along +z); each relative velocity (-vx, -vy, 10 - vz) has an
\* integer length, so the interaction energy / beam energy = |v_b - v_s|^2 / v_b^2 is the exact fraction below
Vel(s) == CASE s = "d0" -> <<0, 0, 0>> [] s = "d1" -> <<2, 3, 4>> [] s = "he1" -> <<4, 4, 3>> [] s = "c5" -> <<6, 2, 7>> [] s = "c6" -> <<1, 4, 2>>
EFac(s) == IF flow THEN LET v == Vel(s) IN <<v[1] * v[1] + v[2] * v[2] + (10 - v[3]) * (10 - v[3]), 100>> ELSE <<1, 1>>
Pos(x) == x > 0
\* required species per model; a missing one makes the model raise RuntimeError on first use
Needs == CASE model = "exc" -> {"d0"} [] model = "rec" -> {"d1"} [] model = "tcx" -> {"c6"} [] model = "trp" -> {"c5", "c6"}
           [] model = "brems" -> {} [] model = "bcx" -> {"c6"} [] model = "bes" -> {}
Raises == ~(Needs \subseteq Present)

RECURSIVE SumS(_, _)
SumS(f, S) == IF S = {} THEN 0 ELSE LET x == CHOOSE y \in S : TRUE IN f[x] + SumS(f, S \ {x})

Donors == {s \in Present : s # "c6" /\ ~Bare(s)}                     \* thermal CX: every species except the receiver and bare nuclei
Hyd == {s \in Present : s = "d0"}                                     \* neutral hydrogen isotopes present
Ions == {s \in Present : Charge(s) > 0}

\* 4 pi x wavelength-integrated emission (integer) ; for "brems" the factor multiplying the Hutchinson kernel
Total ==
  CASE model = "exc"   -> IF Pos(ne) /\ Pos(te) /\ Pos(N("d0")) /\ Pos(temp["d0"]) THEN ne * N("d0") * Rate("exc", "d0") ELSE 0
    [] model = "rec"   -> IF Pos(ne) /\ Pos(te) /\ Pos(N("d1")) /\ Pos(temp["d1"]) THEN ne * N("d1") * Rate("rec", "d1") ELSE 0
    [] model = "tcx"   -> IF Pos(ne) /\ Pos(te) /\ Pos(N("c6")) /\ Pos(temp["c6"]) THEN N("c6") * SumS([s \in Names |-> N(s) * Rate("tcx", s)], Donors) ELSE 0
    [] model = "trp"   -> IF Pos(ne) /\ Pos(te)
                          THEN (IF Pos(N("c5")) THEN ne * N("c5") * Rate("plt", "c5") ELSE 0)
                             + (IF Pos(N("c6")) THEN ne * N("c6") * Rate("prb", "c6") ELSE 0)
                             + (IF Pos(N("c6")) /\ Pos(SumS([s \in Names |-> N(s)], Hyd)) THEN SumS([s \in Names |-> N(s)], Hyd) * N("c6") * Rate("prc", "c6") ELSE 0)
                          ELSE 0
    [] model = "brems" -> IF Pos(ne) /\ Pos(te) THEN ne * SumS([s \in Names |-> IF Pos(N(s)) THEN N(s) * Charge(s) * Charge(s) * Rate("gaunt", Charge(s)) ELSE 0], Ions) ELSE 0
    [] OTHER -> 0
\* a negative donor / hydrogen density is outside what the three clauses of the statement agree on
Unspecified == \/ (model = "tcx" /\ \E s \in Donors : N(s) < 0)
               \/ (model = "trp" /\ \E s \in Hyd : N(s) < 0)

\* ---- beam models (C05): populations and means as exact fractions <<num, den>>
SumZN  == SumS([s \in Names |-> Charge(s) * N(s)], Present)
SumZ2N == SumS([s \in Names |-> Charge(s) * Charge(s) * N(s)], Present)
SumN   == SumS([s \in Names |-> N(s)], Ions)
\* relative population of the excited beam metastable m (2, 3):  sum_i Z_i n_i k_(m,i) / sum_i Z_i n_i ; numerator over SumZN
PopNum(m) == SumS([s \in Names |-> Charge(s) * N(s) * Rate("bmp", <<s, m>>)], Present)
\* q = (q_1 + sum_m pop_m q_m) / (1 + sum_m pop_m), each excited state weighted by its own population
BcxRate(m) == IF m = zq THEN 0 ELSE Rate("bcx", m)
QMean == <<BcxRate(1) * SumZN + PopNum(2) * BcxRate(2) + PopNum(3) * BcxRate(3), SumZN + PopNum(2) + PopNum(3)>>
BeamTotal ==
  CASE model = "bcx" -> IF nb = 0 \/ N("c6") = 0 \/ temp["c6"] = 0 THEN <<0, 1>> ELSE <<nb * N("c6") * QMean[1], QMean[2]>>
    [] model = "bes" -> <<nb * SumS([s \in Names |-> Charge(s) * N(s) * Rate("bes", s)], Present), 1>>
    [] OTHER -> <<0, 1>>

Next == UNCHANGED vars
Spec == Init /\ [][Next]_vars

\* ---- properties of the rules
ZeroWhenNonPositive == (model \in {"exc", "rec", "tcx", "trp", "brems"} /\ (ne <= 0 \/ te <= 0)) => Total = 0
NonNegative == (model \in {"exc", "rec", "tcx", "trp", "brems"} /\ ~Unspecified) => Total >= 0
\* q lies between the smallest and largest coefficient (cross-multiplied)
QBetween == (model = "bcx" /\ ~Raises /\ QMean[2] > 0) =>
               /\ (IF zq = 0 THEN Rate("bcx", 1) ELSE 0) * QMean[2] <= QMean[1] /\ QMean[1] <= Rate("bcx", 3) * QMean[2]
BeamVanishes == (model \in {"bcx", "bes"} /\ nb = 0) => BeamTotal[1] = 0
\* the totals are functions of the current binding only: nothing in the rules refers to what the model saw before
\* (Total, BeamTotal and Raises do not mention prior; the harness evaluates the model under the prior binding first)

\* Vel is given in the beam frame; when the species flow the beam frame is rotated against the plasma frame (the
\* interaction energy is frame independent, so EFac is what every coefficient must be evaluated at either way)
\* homogeneity: every rule above is a sum of products of exactly two densities (n_e n_i, n_rec n_d, n_b n_i; the beam CX
\* mean q is a ratio of sums of the same degree), so with all densities x 10^mag the total is Total x 10^(2 mag)
Degree == 2
EmitCase == PrintT(ToJson([model |-> model, bcx_zero |-> zq, mag |-> mag, total_exp |-> Degree * mag, prior |-> prior, flow |-> flow, frame |-> IF flow THEN "rotated" ELSE "aligned", vel |-> [s \in Names |-> IF flow THEN Vel(s) ELSE <<0, 0, 0>>], efac |-> [s \in Names |-> EFac(s)], dens |-> dens, temp |-> temp, ne |-> ne, te |-> te, nb |-> nb, raises |-> Raises,
                           total |-> Total, unspecified |-> Unspecified, beam_total |-> BeamTotal,
                           needs |-> Needs, donors |-> Donors, hyd |-> Hyd,
                           species |-> Sp, zeff |-> <<SumZ2N, SumZN>>, nion |-> SumN]))
=============================================================================
