------------------------------ MODULE MC_Scene ------------------------------
(* Apalache front-end for Scene.tla: the inductive step for histories of any length.                                     *)
(*   base:  Init => IndInv                     apalache-mc check --cinit=CInit --init=Init --inv=IndInv --length=0        *)
(*   step:  IndInv /\ Step => IndInv'          apalache-mc check --cinit=CInit --init=IndInit --next=Step --inv=IndInv --length=1 *)
(* IndInv = shape of the state /\ NoStale /\ EagerFilled /\ configuration values in range /\ unheld projections zero.     *)
EXTENDS Scene

CInit == /\ MaxHist = 0
         /\ Inits = {"fresh", "observed"}
         /\ MutParams = Params
         /\ ObsKinds = {"plasma_ray", "beam_ray", "laser_ray", "beam_density"}

\* any state whatsoever that satisfies the invariant
IndInit == /\ cfg \in [Params -> 1..3]
           /\ filled \in [Caches -> BOOLEAN]
           /\ at \in [Caches -> [Params -> 0..3]]
           /\ hist = <<>>
           /\ IndInv
\* one public call (the history variable plays no part in the invariant)
Step == /\ UNCHANGED hist
        /\ \/ \E p \in Params : \E v \in Values(p) : SetCore(p, v)
           \/ \E k \in ObsKinds : ObserveCore(k)
=============================================================================
