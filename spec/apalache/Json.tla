-------------------------------- MODULE Json --------------------------------
(* typed stand-in for the CommunityModules Json module, for Apalache runs only (the emission operators are not used there) *)
\* @type: (a) => Str;
ToJson(x) == ""
=============================================================================
