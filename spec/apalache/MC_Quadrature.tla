--------------------------- MODULE MC_Quadrature ---------------------------
(* Apalache front-end for Quadrature.tla (orders up to 60).  See MC_Scene.tla for the two commands. *)
EXTENDS Quadrature
CInit == MaxOrd = 60 /\ MaxHist = 0
IndInit == /\ lo \in 1..MaxOrd /\ hi \in 1..MaxOrd /\ rtol \in 1..2
           /\ table \in {<<a, b>> : a \in 1..MaxOrd, b \in 1..MaxOrd}
           /\ outcome \in {"ok", "ValueError"} /\ hist = <<>> /\ touched \in BOOLEAN
           /\ IndInv
Step == NextStep
=============================================================================
