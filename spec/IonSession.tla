----------------------------- MODULE IonSession -----------------------------
(***************************************************************************)
(* C09, session view (cherab/tools/plasmas/ionisation_balance.py): a caller   *)
(* keeps its profile arrays (electron density, temperature, CX-donor density) *)
(* and passes the same objects to one entry point after another, for one      *)
(* element after another.  The entry points are functions: they never change  *)
(* what they are given and their result depends on the argument values only,  *)
(* not on which calls came before.  The specification generates the call      *)
(* sequences; the populations themselves are IonBalance.tla's.                *)
(***************************************************************************)
EXTENDS Integers, Sequences, FiniteSets, TLC, Json

CONSTANTS MaxHist

Entries == {"fractional_abundance", "from_elementdensity", "match_plasma_neutrality"}
Elements == {"helium", "carbon"}
\* how n_e, T_e and the donor density are handed over; "function1d_int": 1-D functions sampled on a free variable
\* given as an integer-typed array (coordinates 0, 1, 2 as np.arange gives them)
Reps == {"scalar", "ndarray", "function1d", "function1d_int", "function2d"}
\* front-ends: the entry point itself, the 1-D / 2-D interpolator builders (results evaluated at their nodes) and the
\* equilibrium-mapped variant (profiles of normalised flux, result evaluated at points of known flux)
Fronts == {"direct", "interpolators1d", "interpolators2d", "equilibrium_map3d"}
RepsOf(fr) == CASE fr = "direct" -> Reps [] fr = "interpolators2d" -> {"function2d"} [] OTHER -> {"function1d"}
Donor == {"none", "shared"}                        \* without CX donor / with the caller's donor profile
\* the caller's profiles: every point its own plasma state, or two points with identical (n_e, T_e, n_D) but different
\* densities of the other species (an impurity scan at fixed plasma parameters)
Profiles == {"distinct", "repeated_plasma"}
\* the atomic-data provider handed to the call: two providers with different rate coefficients live in one session
Providers == 1..2

VARIABLES served,    \* [Providers -> 1..2]: which rate tables each provider object currently serves (a provider re-reads its
                     \* repository on every request, so its answers change when the repository is updated)
          profile,   \* which set of profiles the caller owns in this session
          inputs,    \* version of each caller-owned array (0 = as created); no action of the library may change it
          hist
vars == <<served, profile, inputs, hist>>

Init == served = [pv \in Providers |-> pv] /\ profile \in Profiles /\ inputs = [ne |-> 0, te |-> 0, nd |-> 0, nel |-> 0] /\ hist = <<>>
Call(e, el, fr, rep, d, pv) ==
    /\ rep \in RepsOf(fr)
    /\ UNCHANGED <<inputs, profile, served>>
    /\ hist' = Append(hist, [entry |-> e, element |-> el, front |-> fr, rep |-> rep, donor |-> d, provider |-> pv, tables |-> served[pv]])
\* the repository behind provider pv is updated: the same provider object serves other rate tables from now on
Update(pv) ==
    /\ served' = [served EXCEPT ![pv] = 3 - @]
    /\ UNCHANGED <<inputs, profile>>
    /\ hist' = Append(hist, [entry |-> "repository_update", element |-> "-", front |-> "direct", rep |-> "-", donor |-> "none", provider |-> pv, tables |-> 3 - served[pv]])
\* the second provider appears in the direct calls (the front-ends only wrap them)
Next == Len(hist) < MaxHist /\ \E e \in Entries, el \in Elements, fr \in Fronts, rep \in Reps, d \in Donor, pv \in Providers :
                                  \/ (pv = 2 => fr = "direct" /\ rep \in {"scalar", "ndarray"}) /\ Call(e, el, fr, rep, d, pv)
                                  \/ (Len(hist) >= 1 /\ hist[Len(hist)].entry # "repository_update" /\ fr = "direct" /\ rep = "scalar" /\ d = "none"
                                        /\ e = "fractional_abundance" /\ el = "helium" /\ Update(pv))
Spec == Init /\ [][Next]_vars

\* the shape  call ; repository update behind the same provider ; the same call again  (explored exhaustively in the quick tier)
UCUNext == \/ /\ Len(hist) = 0
              /\ \E e \in Entries, el \in Elements, rep \in {"scalar", "ndarray", "function1d"}, d \in Donor, pv \in Providers : Call(e, el, "direct", rep, d, pv)
           \/ /\ Len(hist) = 1 /\ Update(hist[1].provider)
           \/ /\ Len(hist) = 2 /\ Call(hist[1].entry, hist[1].element, "direct", hist[1].rep, hist[1].donor, hist[1].provider)
UCUSpec == Init /\ [][UCUNext]_vars

InputsUntouched == inputs = [ne |-> 0, te |-> 0, nd |-> 0, nel |-> 0]
\* the result of a call is determined by this key alone (the harness compares equal keys across and within histories)
ResultKey(c) == <<c.entry, c.element, c.donor, c.tables>>
Emit == PrintT(ToJson([calls |-> hist', profile |-> profile']))
=============================================================================
