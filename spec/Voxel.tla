------------------------------- MODULE Voxel -------------------------------
(***************************************************************************)
(* C17 - axisymmetric voxels (cherab/tools/inversions/voxels.pyx): cross-   *)
(* sectional area, centroid and volume of a simple polygon in the (r, z)     *)
(* plane, for every starting vertex and both orientations of its vertex list *)
(* (the dihedral orbit), on integer lattice polygons so that everything is   *)
(* an exact rational:  2A = |S2|,  centroid = (Sx, Sy) / (3 S2),             *)
(* volume = 2 pi c_r A = pi |Sx| / 3,  with the shoelace sums S2, Sx, Sy.    *)
(* One TLC state per (polygon, rotation, orientation).                       *)
(***************************************************************************)
EXTENDS Integers, Sequences, FiniteSets, TLC, Json, SequencesExt

CONSTANT WithFamily      \* BOOLEAN: include the parameterised quadrilateral family

Polys == << <<<<1, 0>>, <<4, 0>>, <<2, 3>>>>,                                      \* triangle
            <<<<2, 1>>, <<5, 1>>, <<5, 3>>, <<2, 3>>>>,                            \* rectangle
            <<<<1, 0>>, <<4, 0>>, <<4, 1>>, <<2, 1>>, <<2, 3>>, <<1, 3>>>>,        \* L-shaped hexagon (concave)
            <<<<3, -2>>, <<6, -1>>, <<7, 2>>, <<4, 4>>, <<2, 1>>>>,                \* convex pentagon
            <<<<1, 0>>, <<5, 2>>, <<1, 4>>, <<2, 2>>>>,                            \* dart (concave quadrilateral)
            <<<<0, 0>>, <<3, 0>>, <<2, 2>>, <<0, 2>>>>,                            \* trapezoid touching the axis r = 0
            <<<<10, 5>>, <<12, 5>>, <<12, 6>>, <<11, 6>>, <<11, 8>>, <<10, 8>>>>,  \* L-shape at larger radius
            <<<<1, 0>>, <<5, 0>>, <<4, 2>>, <<2, 2>>>>,                            \* isosceles trapezoid, parallel sides along r (equal diagonals, not a rectangle)
            <<<<1, 0>>, <<3, 1>>, <<3, 3>>, <<1, 4>>>>,                            \* isosceles trapezoid, parallel sides along z
            <<<<1, 0>>, <<4, 0>>, <<5, 2>>, <<2, 2>>>>,                            \* parallelogram
            <<<<3, 0>>, <<5, 2>>, <<3, 4>>, <<1, 2>>>>,                            \* square standing on a corner
            <<<<2, 0>>, <<6, 0>>, <<6, 1>>, <<2, 1>>>>,                            \* flat rectangle
            <<<<1, 0>>, <<5, 0>>, <<5, 4>>, <<4, 4>>, <<4, 1>>, <<2, 1>>, <<2, 4>>, <<1, 4>>>>,   \* U shape (8 vertices, concave)
            <<<<2, 0>>, <<4, 0>>, <<5, 2>>, <<4, 4>>, <<2, 4>>, <<1, 2>>>> >>      \* convex hexagon

\* a family of grid-cell-like quadrilaterals: trapezoids with their parallel sides along r, <<r0, 0>>, <<r0 + a, 0>>, <<r0 + a - c, h>>,
\* <<r0 + d, h>> (d + c < a; rectangles, right and isosceles trapezoids, slanted ones), and their mirror images with the parallel
\* sides along z (coordinates swapped, vertex order reversed so that the orientation is kept)
TrapParams == {t \in {0, 2} \X (2..4) \X (1..2) \X (0..1) \X (0..1) : t[4] + t[5] < t[2]}
TrapR(t) == << <<t[1], 0>>, <<t[1] + t[2], 0>>, <<t[1] + t[2] - t[5], t[3]>>, <<t[1] + t[4], t[3]>> >>
TrapZ(t) == << <<t[1], 0>>, <<t[1] + t[3], t[4]>>, <<t[1] + t[3], t[2] - t[5]>>, <<t[1], t[2]>> >>
Family == SetToSeq({TrapR(t) : t \in TrapParams} \cup {TrapZ(t) : t \in TrapParams})
AllPolys == IF WithFamily THEN Polys \o Family ELSE Polys

VARIABLES poly, rot, rev
vars == <<poly, rot, rev>>

Rotate(P, k) == [i \in 1..Len(P) |-> P[((i - 1 + k) % Len(P)) + 1]]

Orbit(P, k, r) == IF r THEN Reverse(Rotate(P, k)) ELSE Rotate(P, k)

Nxt(P, i) == P[(i % Len(P)) + 1]
Cross(P, i) == P[i][1] * Nxt(P, i)[2] - Nxt(P, i)[1] * P[i][2]
RECURSIVE Sum(_, _)
Sum(f, n) == IF n = 0 THEN 0 ELSE f[n] + Sum(f, n - 1)
S2(P) == Sum([i \in 1..Len(P) |-> Cross(P, i)], Len(P))                                   \* signed twice-area
Sx(P) == Sum([i \in 1..Len(P) |-> (P[i][1] + Nxt(P, i)[1]) * Cross(P, i)], Len(P))        \* 6 A c_r (signed like S2)
Sy(P) == Sum([i \in 1..Len(P) |-> (P[i][2] + Nxt(P, i)[2]) * Cross(P, i)], Len(P))
Abs(x) == IF x < 0 THEN -x ELSE x

Init == poly \in 1..Len(AllPolys) /\ rot \in 0..7 /\ rev \in BOOLEAN /\ rot < Len(AllPolys[poly])
Next == UNCHANGED vars
Spec == Init /\ [][Next]_vars

V == Orbit(AllPolys[poly], rot, rev)
C == AllPolys[poly]
\* area, centroid and volume do not depend on the starting vertex or the orientation
AreaInvariant == Abs(S2(V)) = Abs(S2(C)) /\ Abs(S2(V)) > 0
CentroidInvariant == Sx(V) * S2(C) = Sx(C) * S2(V) /\ Sy(V) * S2(C) = Sy(C) * S2(V)      \* Sx/S2 equal as rationals
VolumeInvariant == Abs(Sx(V)) = Abs(Sx(C))
\* the centroid of a polygon lies within its bounding box (sanity of the formula): min r <= c_r <= max r
CentroidInBox == LET s == IF S2(V) > 0 THEN 1 ELSE -1  rs == {V[i][1] : i \in 1..Len(V)} IN
                 \A r \in rs : (\A q \in rs : r <= q) => 3 * s * S2(V) * r <= s * Sx(V)

\* the same polygon measured in another length unit (millimetre-sized cells, kilometre-sized ones): lengths x 10^e, the area
\* x 10^2e, the volume x 10^3e - nothing in the formulas has a scale of its own
UnitExps == <<0, -4, 3>>
EmitCase == PrintT(ToJson([unit_exps |-> UnitExps, poly |-> poly, rot |-> rot, rev |-> rev, vertices |-> V, twice_area |-> Abs(S2(V)),
                           cr |-> <<Sx(V), 3 * S2(V)>>, cz |-> <<Sy(V), 3 * S2(V)>>, volume_over_pi |-> <<Abs(Sx(V)), 3>>]))
=============================================================================
