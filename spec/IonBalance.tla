----------------------------- MODULE IonBalance -----------------------------
(***************************************************************************)
(* C09 - steady-state ionisation balance (cherab/tools/plasmas/              *)
(* ionisation_balance.py) over exact rationals.  For an element of atomic    *)
(* number Z with ionisation rates S_z (z = 0..Z-1), recombination rates      *)
(* alpha_z and thermal-CX rates C_z (z = 1..Z) and donor ratio d = n_D/n_e,  *)
(* the balance n_z S_z = n_(z+1) R_(z+1), R_z = alpha_z + d C_z, has the     *)
(* unnormalised solution  w_z = (prod_{k<=z} S_(k-1)) (prod_{k>z} R_k).      *)
(* Rates are small integers (times 1e-14 m^3/s in the harness), d = P/Q.     *)
(* One TLC state per instance.                                               *)
(***************************************************************************)
EXTENDS Integers, Sequences, FiniteSets, TLC, Json

CONSTANTS Zs,          \* atomic numbers explored
          ZExact,      \* up to this Z the populations are computed exactly (32-bit integers); above, only the rates are prescribed
          Pats,        \* rate pattern parameters 0..2
          Spans        \* 0: the small-integer rate patterns; s > 0: rates that are powers of ten spread over ~s orders of magnitude

VARIABLES Z, a, b, c, dn, dq, span
vars == <<Z, a, b, c, dn, dq, span>>

\* donor ratio n_D / n_e as P/Q
Donor(i) == CASE i = 0 -> <<0, 1>> [] i = 1 -> <<1, 2>> [] i = 2 -> <<2, 1>>
S(z)     == 1 + ((z + a) % 3)                   \* ionisation z -> z+1
Alpha(z) == 1 + ((2 * z + b) % 3)               \* recombination z -> z-1
Cx(z)    == 1 + ((z * z + c) % 3) + 2 * dq      \* thermal CX z -> z-1; depends on the donor's charge state dq
\* Q * R_z
QR(z) == Donor(dn)[2] * Alpha(z) + Donor(dn)[1] * Cx(z)

RECURSIVE ProdS(_), ProdR(_)
ProdS(z) == IF z = 0 THEN 1 ELSE S(z - 1) * ProdS(z - 1)              \* prod_{k=1..z} S_(k-1)
ProdR(z) == IF z >= Z THEN 1 ELSE QR(z + 1) * ProdR(z + 1)           \* prod_{k=z+1..Z} Q R_k
\* weights over a common factor Q^Z:  w_z Q^Z = ProdS(z) Q^z ProdR(z)
RECURSIVE Pow(_, _)
Pow(x, n) == IF n = 0 THEN 1 ELSE x * Pow(x, n - 1)
Wt(z) == ProdS(z) * Pow(Donor(dn)[2], z) * ProdR(z)
RECURSIVE SumW(_)
SumW(z) == IF z < 0 THEN 0 ELSE Wt(z) + SumW(z - 1)
Total == SumW(Z)

\* ---- widely spread rates: S_z = 10^-SExp(z), alpha_z = 10^-AExp(z), no donor.  Every weight is a power of ten,
\* w_z = 10^LogW(z), so the exact populations are given by integers however many orders of magnitude the rates span.
SExp(z) == 14 + (span * ((5 * z + 3 * a) % 7)) \div 6
AExp(z) == 14 + (span * ((3 * (z - 1) + 2 * a + 1) % 5)) \div 4
RECURSIVE SumSE(_), SumAE(_)
SumSE(z) == IF z = 0 THEN 0 ELSE SExp(z - 1) + SumSE(z - 1)             \* sum_{k<z} SExp(k)
SumAE(z) == IF z >= Z THEN 0 ELSE AExp(z + 1) + SumAE(z + 1)           \* sum_{k>z} AExp(k)
LogW(z) == 0 - SumSE(z) - SumAE(z)
WideBalance == span > 0 => \A z \in 0..(Z - 1) : LogW(z) - SExp(z) = LogW(z + 1) - AExp(z + 1)

Init == /\ Z \in Zs /\ a \in Pats /\ b \in Pats /\ c \in Pats /\ dn \in 0..2 /\ dq \in 0..1 /\ (dn = 0 => dq = 0)
        /\ span \in Spans /\ (span > 0 => b = 0 /\ c = 0 /\ dn = 0 /\ Z <= 6)
Next == UNCHANGED vars
Spec == Init /\ [][Next]_vars

\* f_z = Wt(z) / Total
Small == Z <= ZExact
InUnitInterval == Small => \A z \in 0..Z : 0 <= Wt(z) /\ Wt(z) <= Total /\ Total > 0
\* balance between neighbours, cross-multiplied:  f_z S_z Q = f_(z+1) Q R_(z+1)
Balance == Small => \A z \in 0..(Z - 1) : Wt(z) * S(z) * Donor(dn)[2] = Wt(z + 1) * QR(z + 1)
\* mean charge (numerator over Total) is what neutrality matching divides by
RECURSIVE SumZW(_)
SumZW(z) == IF z < 0 THEN 0 ELSE z * Wt(z) + SumZW(z - 1)
MeanChargePositive == Small => SumZW(Z) > 0
\* without a donor the CX rates are irrelevant
NoDonorNoCx == dn = 0 => \A z \in 1..Z : QR(z) = Alpha(z)

\* ---- neutrality matching: the species given by the caller carry the fraction g of the electron charge; the matched element
\* takes the rest, (1 - g) n_e, shared out by the balance fractions - and nothing when the given species already carry more
\* charge than there are electrons (g > 1): densities are never negative
\* (the given species are dictionaries charge -> density: the order in which their charges are listed is the caller's business)
GivenFracs == << <<1, 15>>, <<9, 10>>, <<3, 2>> >>
BulkCharge(g) == IF g[1] < g[2] THEN <<g[2] - g[1], g[2]>> ELSE <<0, 1>>
BulkNonNegative == \A i \in DOMAIN GivenFracs : BulkCharge(GivenFracs[i])[1] >= 0 /\ BulkCharge(GivenFracs[i])[1] <= BulkCharge(GivenFracs[i])[2]

\* ---- densities from an element density: n_z = n_element x fraction_z for any element density - a trace impurity (1/40 of the
\* electron density) as well as a weakly ionised gas with far more atoms than electrons (40 n_e): the element density is a
\* scale only, it does not enter the balance (the library merely warns that such a plasma is not neutral)
ElementPerElectron == << <<1, 40>>, <<40, 1>> >>
ElementDensityIsAScale == \A i \in DOMAIN ElementPerElectron : ElementPerElectron[i][1] > 0 /\ ElementPerElectron[i][2] > 0

EmitCase == PrintT(ToJson([eldens |-> ElementPerElectron, given |-> [i \in DOMAIN GivenFracs |-> [g |-> GivenFracs[i], bulk |-> BulkCharge(GivenFracs[i])]], span |-> span, pat |-> a, sexp |-> [z \in 1..Z |-> SExp(z - 1)], aexp |-> [z \in 1..Z |-> AExp(z)], logw |-> [z \in 1..(Z + 1) |-> LogW(z - 1)], Z |-> Z, S |-> [z \in 1..Z |-> S(z - 1)], alpha |-> [z \in 1..Z |-> Alpha(z)], cx |-> [z \in 1..Z |-> Cx(z)],
                           donor |-> Donor(dn), dq |-> dq, w |-> IF Small THEN [z \in 1..(Z + 1) |-> Wt(z - 1)] ELSE <<>>,
                           total |-> IF Small THEN Total ELSE 0, zw |-> IF Small THEN SumZW(Z) ELSE 0]))
=============================================================================
