----------------------------- MODULE LineShape -----------------------------
(***************************************************************************)
(* C02 - the component algebra of the line-shape models                      *)
(* (cherab/core/model/lineshape/*.pyx, beam/mse.pyx): into which components  *)
(* a line of radiance R is split, with which exact share of R and at which   *)
(* position.  cos^2 of the angle between B and the viewing direction is a    *)
(* rational (integer vectors), multiplet / Zeeman-structure / MSE ratios are *)
(* small rationals, so every share is an exact fraction.  A component is     *)
(*   [w |-> <<num, den>>, at |-> position label, k |-> kernel]               *)
(* kernel "g" = Gaussian bin-average (erf), "pv" = Stark pseudo-Voigt.       *)
(* One TLC state per configuration.                                          *)
(***************************************************************************)
EXTENDS Rational, Sequences, FiniteSets, TLC, Json

CONSTANTS ModelsC

VARIABLES model, pol, cs, bzero, tsp, broad, window,
          regime,    \* Stark only: "doppler" (Stark width a few % of the Doppler width) or "mixed" (comparable widths)
          view,      \* observation direction: 1 = +x, 2 = -x, 3 = +y (the emitter flows with (2, 1, 0) x 1e4 m/s, so the Doppler
                     \* shift is +2, -2, +1 units; the field keeps its angle class cs to the direction)
          emitter    \* "d" (deuterium D-alpha) or "c" (C5+ 8-7): the thermal width goes with 1 / sqrt(atomic weight)
vars == <<model, pol, cs, bzero, tsp, broad, window, regime, view, emitter>>
\* velocity component along the observation direction in units of 1e4 m/s
\* views 4 and 5 give the direction as a vector that is not of unit length (2 x^ and 3 y^): only its direction counts
DopplerUnits == CASE view \in {1, 4} -> 2 [] view = 2 -> -2 [] view \in {3, 5} -> 1
DirLength == CASE view = 4 -> 2 [] view = 5 -> 3 [] OTHER -> 1

Cos2(i) == CASE i = 1 -> <<0, 1>> [] i = 2 -> <<1, 1>> [] i = 3 -> <<1, 2>> [] i = 4 -> <<9, 25>>
C2 == Cos2(cs)
S2 == RSub(R(1), C2)
Half == <<1, 2>>
PiShare == RMul(Half, S2)                                        \* sin^2 / 2
SigmaShare == RAdd(RMul(<<1, 4>>, S2), RMul(Half, C2))           \* sin^2 / 4 + cos^2 / 2   (each of sigma+ and sigma-)

Comp(w, at, k) == [w |-> w, at |-> at, k |-> k]
Scale(q, comps) == [i \in DOMAIN comps |-> [comps[i] EXCEPT !.w = RMul(q, comps[i].w)]]

\* a Zeeman triplet (or its B = 0 degenerate form) with kernel k
Triplet(k) ==
    IF bzero THEN << Comp(IF pol = "no" THEN R(1) ELSE Half, "c", k) >>
    ELSE (IF pol # "sigma" THEN << Comp(PiShare, "c", k) >> ELSE <<>>) \o
         (IF pol # "pi" THEN << Comp(SigmaShare, "z+", k), Comp(SigmaShare, "z-", k) >> ELSE <<>>)

\* Zeeman multiplet: pi ratios (1/2, 1/2), sigma+ ratios (2/3, 1/3), sigma- ratios (1/4, 1/2, 1/4): the two sigma groups
\* need not have the same number of components
MultipletZ ==
    IF bzero THEN << Comp(IF pol = "no" THEN R(1) ELSE Half, "c", "g") >>
    ELSE (IF pol # "sigma" THEN Scale(PiShare, << Comp(<<1, 2>>, "p1", "g"), Comp(<<1, 2>>, "p2", "g") >>) ELSE <<>>) \o
         (IF pol # "pi" THEN Scale(SigmaShare, << Comp(<<2, 3>>, "sp1", "g"), Comp(<<1, 3>>, "sp2", "g") >>) \o
                             Scale(SigmaShare, << Comp(<<1, 4>>, "sm1", "g"), Comp(<<1, 2>>, "sm2", "g"), Comp(<<1, 4>>, "sm3", "g") >>) ELSE <<>>)

\* motional Stark multiplet with sigma/pi = 1/2, sigma1/sigma0 = 1/2, pi2/pi3 = 1/2, pi4/pi3 = 1/4
MSE == LET s == <<1, 2>>  s1 == <<1, 2>>  p2 == <<1, 2>>  p4 == <<1, 4>>
           d == RDiv(R(1), RAdd(R(1), s))
           isig == RMul(s, d)   ipi == RMul(Half, d)
           s0 == RDiv(R(1), RAdd(R(1), s1))   s1w == RMul(Half, RMul(s1, s0))
           p3 == RDiv(R(1), RAdd(R(1), RAdd(p2, p4)))
       IN << Comp(RMul(isig, s0), "k0", "g"), Comp(RMul(isig, s1w), "k+1", "g"), Comp(RMul(isig, s1w), "k-1", "g"),
             Comp(RMul(ipi, RMul(p2, p3)), "k+2", "g"), Comp(RMul(ipi, RMul(p2, p3)), "k-2", "g"),
             Comp(RMul(ipi, p3), "k+3", "g"), Comp(RMul(ipi, p3), "k-3", "g"),
             Comp(RMul(ipi, RMul(p4, p3)), "k+4", "g"), Comp(RMul(ipi, RMul(p4, p3)), "k-4", "g") >>

\* a line with no width adds nothing: species temperature <= 0 (and, for Stark, no electron broadening either)
NoWidth == IF model = "stark" THEN tsp <= 0 /\ ~broad ELSE IF model = "mse" THEN ~broad \/ tsp <= 0 ELSE tsp <= 0   \* MSE: width from the beam temperature
Components ==
    IF NoWidth THEN <<>>
    ELSE CASE model = "gaussian"  -> << Comp(R(1), "c", "g") >>
           [] model = "multiplet" -> << Comp(<<3, 4>>, "m1", "g"), Comp(<<1, 4>>, "m2", "g") >>
           [] model \in {"zeeman_triplet", "param_zeeman_triplet"} -> Triplet("g")
           [] model = "zeeman_multiplet" -> MultipletZ
           [] model = "stark" -> Triplet("pv")
           [] model = "mse" -> MSE

Polarised == model \in {"zeeman_triplet", "param_zeeman_triplet", "zeeman_multiplet", "stark"}
Init == /\ model \in ModelsC
        /\ pol \in (IF model \in {"zeeman_triplet", "param_zeeman_triplet", "zeeman_multiplet", "stark"} THEN {"no", "pi", "sigma"} ELSE {"no"})
        /\ cs \in 1..4 /\ bzero \in BOOLEAN
        /\ tsp \in {-1, 0, 5}
        /\ broad \in BOOLEAN                  \* Stark / MSE: electron density and temperature positive
        \* window classes: line inside / cut by the lower or upper edge / outside / 3 bins of 20 nm, and the unresolved edge
        \* cases: a single bin holding part of the line, only the line's tail reaching the first (last) bin of a coarse grid
        \* and bins a few line widths wide: the line centre on a bin boundary (bins of 8 sigma), one sigma above a boundary (bins of
        \* 6 sigma), and 8 sigma below a boundary of 25-sigma bins (only the far wing reaches the next bin)
        /\ window \in {"inside", "straddle_low", "straddle_high", "outside", "coarse", "one_bin_partial", "tail_in_first_bin", "tail_in_last_bin",
                       "centre_on_boundary", "centre_near_boundary", "wing_over_boundary"}
        /\ (model \notin {"stark", "mse"} => broad)
        /\ regime \in (IF model = "stark" /\ broad THEN {"doppler", "mixed"} ELSE {"doppler"})
        /\ view \in (IF model = "mse" THEN {1} ELSE 1..5)
        /\ emitter \in (IF model \in {"gaussian", "multiplet", "zeeman_triplet"} THEN {"d", "c"} ELSE {"d"})
        /\ (view # 1 \/ emitter # "d" => window \in {"inside", "straddle_low", "one_bin_partial", "centre_on_boundary"})
Next == UNCHANGED vars
Spec == Init /\ [][Next]_vars

RECURSIVE SumW(_)
SumW(cps) == IF cps = <<>> THEN <<0, 1>> ELSE RAdd(cps[1].w, SumW(Tail(cps)))
\* shares add up to the whole radiance without polarisation filter
SharesSumToOne == (pol = "no" /\ Components # <<>>) => SumW(Components) = <<1, 1>>
\* each polarised spectrum carries its share: pi = sin^2/2 (or 1/2 at B = 0), sigma = the rest
PolarisedShare == (Polarised /\ Components # <<>> /\ pol # "no") =>
                     SumW(Components) = (IF bzero THEN Half ELSE IF pol = "pi" THEN PiShare ELSE RMul(R(2), SigmaShare))
PiPlusSigma == RAdd(PiShare, RMul(R(2), SigmaShare)) = <<1, 1>>
NoWidthAddsNothing == NoWidth => Components = <<>>

EmitCase == PrintT(ToJson([model |-> model, pol |-> pol, cos2 |-> C2, cs |-> cs, bzero |-> bzero, tsp |-> tsp, broad |-> broad, window |-> window, regime |-> regime, view |-> view, emitter |-> emitter, doppler_units |-> DopplerUnits, dir_length |-> DirLength,
                           comps |-> Components, total |-> SumW(Components)]))
=============================================================================
