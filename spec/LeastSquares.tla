---------------------------- MODULE LeastSquares ----------------------------
(***************************************************************************)
(* C11 - the regularised least-squares solvers (invert_regularised_lstsq,    *)
(* invert_regularised_nnls): minimise |W x - b|^2 + alpha^2 |x|^2 over two   *)
(* unknowns (Tikhonov matrix = identity), exactly, over rationals.           *)
(* Unconstrained: the normal equations (W^T W + alpha^2 I) x = W^T b by      *)
(* Cramer's rule.  x >= 0: the minimiser is the feasible stationary point of *)
(* one of the four active sets (KKT: gradient >= 0 on clamped components).   *)
(***************************************************************************)
EXTENDS Rational, Sequences, FiniteSets, TLC, Json

CONSTANTS M, Entries, Meas, Alphas      \* alpha^2 as index: 1 -> 1, 2 -> 1/4

VARIABLES W, b, al,
          prev     \* 0: first use of the Tikhonov matrix; i > 0: the caller's Tikhonov array was handed to an earlier call with alpha index i
                   \* (an alpha scan re-using one array): the minimiser does not depend on it, and the array stays what it was
vars == <<W, b, al, prev>>
Rows == 1..M
A2(i) == IF i = 1 THEN <<1, 1>> ELSE <<1, 4>>

RECURSIVE SumI(_, _)
SumI(f, n) == IF n = 0 THEN 0 ELSE f[n] + SumI(f, n - 1)
G(i, j) == SumI([k \in Rows |-> W[k][i] * W[k][j]], M)          \* (W^T W)_ij, integer
H(i) == SumI([k \in Rows |-> W[k][i] * b[k]], M)                \* (W^T b)_i
\* normal matrix N = W^T W + alpha^2 I  (2x2, rationals)
N11 == RAdd(R(G(1, 1)), A2(al))
N22 == RAdd(R(G(2, 2)), A2(al))
N12 == R(G(1, 2))
Det == RSub(RMul(N11, N22), RMul(N12, N12))
Unc == << RDiv(RSub(RMul(R(H(1)), N22), RMul(N12, R(H(2)))), Det),
          RDiv(RSub(RMul(N11, R(H(2))), RMul(N12, R(H(1)))), Det) >>
\* gradient/2 of the objective at x:  N x - W^T b
Grad(x) == << RSub(RAdd(RMul(N11, x[1]), RMul(N12, x[2])), R(H(1))),
              RSub(RAdd(RMul(N12, x[1]), RMul(N22, x[2])), R(H(2))) >>
Zero == <<0, 1>>
\* candidates of the non-negative problem: free/free, x1 clamped, x2 clamped, both clamped
Cands == { Unc, <<Zero, RDiv(R(H(2)), N22)>>, <<RDiv(R(H(1)), N11), Zero>>, <<Zero, Zero>> }
KKT(x) == /\ x[1][1] >= 0 /\ x[2][1] >= 0
          /\ Grad(x)[1][1] >= 0 /\ Grad(x)[2][1] >= 0
          /\ (x[1][1] > 0 => Grad(x)[1][1] = 0) /\ (x[2][1] > 0 => Grad(x)[2][1] = 0)
NNLS == CHOOSE x \in Cands : KKT(x)
RECURSIVE SumR2Rec(_, _)
SumR2Rec(f, n) == IF n = 0 THEN <<0, 1>> ELSE RAdd(RMul(f[n], f[n]), SumR2Rec(f, n - 1))
SumR2(f) == SumR2Rec(f, M)
\* objective value |W x - b|^2 + alpha^2 |x|^2
Obj(x) == LET res == [k \in Rows |-> RSub(RAdd(RMul(R(W[k][1]), x[1]), RMul(R(W[k][2]), x[2])), R(b[k]))]
              r2 == SumR2(res)
          IN RAdd(r2, RMul(A2(al), RAdd(RMul(x[1], x[1]), RMul(x[2], x[2]))))

\* invert_svd: the minimum-norm least-squares solution W^+ b (no regularisation), exact for two unknowns:
\* full column rank -> Cramer on W^T W x = W^T b; rank one -> W^T b / trace(W^T W) (W^T b lies along the one singular
\* direction); W = 0 -> 0.  It is unchanged when W and b are multiplied by the same power of ten (ScaleExps).
Det0 == G(1, 1) * G(2, 2) - G(1, 2) * G(1, 2)
Tr0 == G(1, 1) + G(2, 2)
MinNorm == IF Det0 # 0 THEN << RNorm(H(1) * G(2, 2) - G(1, 2) * H(2), Det0), RNorm(G(1, 1) * H(2) - G(1, 2) * H(1), Det0) >>
           ELSE IF Tr0 # 0 THEN << RNorm(H(1), Tr0), RNorm(H(2), Tr0) >> ELSE << Zero, Zero >>
ScaleExps == <<0, 4, -20>>
\* W^T (W x - b) = 0 at the minimum-norm solution
MinNormSolvesNormalEquations ==
    /\ RSub(RAdd(RMul(R(G(1, 1)), MinNorm[1]), RMul(R(G(1, 2)), MinNorm[2])), R(H(1))) = Zero
    /\ RSub(RAdd(RMul(R(G(1, 2)), MinNorm[1]), RMul(R(G(2, 2)), MinNorm[2])), R(H(2))) = Zero

Init == W \in [Rows -> [1..2 -> Entries]] /\ b \in [Rows -> Meas] /\ al \in Alphas /\ prev \in {0} \cup Alphas
Next == UNCHANGED vars
Spec == Init /\ [][Next]_vars

\* alpha > 0 makes the problem strictly convex: unique minimisers, certified by the normal equations / KKT
NormalEquations == Grad(Unc) = <<Zero, Zero>>
KKTHasSolution == \E x \in Cands : KKT(x)
KKTUnique == \A x, y \in Cands : (KKT(x) /\ KKT(y)) => x = y
NNLSNotBelowUnconstrained == RLeq(Obj(Unc), Obj(NNLS))
NNLSEqualsUncWhenFeasible == (Unc[1][1] >= 0 /\ Unc[2][1] >= 0) => NNLS = Unc

\* the entries of W and b are integers here: the caller may hand them over as float64 or as integer arrays (a hand-typed 0/1
\* incidence matrix); the minimisers are the same numbers either way
Reprs == <<"float64", "int64", "fortran">>      \* "fortran": W column-major in memory, b a strided view
EmitCase == PrintT(ToJson([reprs |-> Reprs, prev_alpha2 |-> IF prev = 0 THEN <<0, 1>> ELSE A2(prev), minnorm |-> MinNorm, scale_exps |-> ScaleExps, rank |-> IF Det0 # 0 THEN 2 ELSE IF Tr0 # 0 THEN 1 ELSE 0, W |-> W, b |-> b, alpha2 |-> A2(al), lstsq |-> Unc, nnls |-> NNLS, obj_lstsq |-> Obj(Unc), obj_nnls |-> Obj(NNLS)]))
=============================================================================
