---------------------------- MODULE RayTransfer ----------------------------
(***************************************************************************)
(* C10 - ray-transfer integrators (cherab/tools/raytransfer/emitters.pyx):   *)
(* a ray segment P0 -> P1 inside a regular grid is sampled at the n          *)
(* midpoints t = (2 i + 1) / (2 n); each sample adds dt = |P0P1| / n to the  *)
(* light source its cell is mapped to (voxel map; -1 = none).  One TLA+ step *)
(* per sample: the loop *is* the state machine.  Coordinates are integers    *)
(* over the denominator U; cell indices are exact integer floors; radii are  *)
(* compared through squares and toroidal sectors through sign / magnitude     *)
(* tests, so nothing is rounded.  A sample exactly on a cell face (or on the *)
(* axis / a sector border) is counted as ambiguous.                          *)
(***************************************************************************)
EXTENDS Rational, Sequences, FiniteSets, TLC, Json

CONSTANTS Kind,       \* "cart" or "cyl"
          MapKind,    \* "identity", "mask", "merged"
          Ns,         \* numbers of samples explored
          NPHI, DPHI, \* cylindrical grid: toroidal cells and their size in degrees (NPHI = 1, DPHI = 360: axisymmetric)
          NZc, DZc    \* cylindrical grid: layers in Z and their height (NZc * DZc = 6)

U == 2                \* coordinates are k / U
\* Cartesian grid: NX x NY x NZ cells of size DX, DY, DZ;  cylindrical grid: NR x NPHI x NZc cells of DR, DPHI degrees, DZc, inner radius RMIN
NX == 3  NY == 2  NZ == 2
DX == 2  DY == 1  DZ == 3
NR == 2
DR == 2  RMIN == 1                                  \* period = NPHI * DPHI degrees

VARIABLES p0, p1, n, i, count, amb
vars == <<p0, p1, n, i, count, amb>>

FloorDiv(a, b) == a \div b                          \* TLA+ \div is the floor for b > 0
\* end points (numerators over U): box corners, face / edge / interior points
CartPts == {<<0, 0, 0>>, <<12, 4, 12>>, <<0, 4, 12>>, <<12, 0, 0>>, <<6, 2, 6>>, <<1, 1, 1>>, <<11, 3, 11>>, <<4, 0, 5>>, <<0, 3, 7>>, <<12, 1, 3>>, <<5, 4, 0>>, <<7, 2, 12>>, <<3, 3, 9>>}
CylPts == {<<2, 0, 0>>, <<10, 0, 12>>, <<0, 10, 6>>, <<-10, 0, 1>>, <<0, -10, 11>>, <<6, 6, 3>>, <<-6, 6, 9>>, <<-3, -7, 5>>, <<7, -3, 12>>, <<3, 1, 0>>, <<-2, -2, 7>>, <<4, 8, 2>>, <<-8, 4, 10>>}
Pts == IF Kind = "cart" THEN CartPts ELSE CylPts

\* sample point numerators over the denominator 2 n U
CoordAt(q0, q1, nn, ii, k) == 2 * nn * q0[k] + (q1[k] - q0[k]) * (2 * ii + 1)
DenOf(nn) == 2 * nn * U

Shape == IF Kind = "cart" THEN <<NX, NY, NZ>> ELSE <<NR, NPHI, NZc>>
Cells == {<<a, b, c>> : a \in 0..(Shape[1] - 1), b \in 0..(Shape[2] - 1), c \in 0..(Shape[3] - 1)}
\* ---- cell of the current sample
CartCell(X, Y, Zc, DN) == <<FloorDiv(X, DN * DX), FloorDiv(Y, DN * DY), FloorDiv(Zc, DN * DZ)>>
CartOnFace(X, Y, Zc, DN) == X % (DN * DX) = 0 \/ Y % (DN * DY) = 0 \/ Zc % (DN * DZ) = 0

R2(X, Y, Zc, DN) == X * X + Y * Y                     \* (r DN)^2
IR(X, Y, Zc, DN) == CHOOSE k \in -1..NR : /\ (k = -1 /\ R2(X, Y, Zc, DN) < (RMIN * DN) * (RMIN * DN)) \/ (k >= 0 /\ ((RMIN + k * DR) * DN) * ((RMIN + k * DR) * DN) <= R2(X, Y, Zc, DN))
                             /\ (k < NR => R2(X, Y, Zc, DN) < ((RMIN + (k + 1) * DR) * DN) * ((RMIN + (k + 1) * DR) * DN))
ROnFace(X, Y, Zc, DN) == \E k \in 0..NR : R2(X, Y, Zc, DN) = ((RMIN + k * DR) * DN) * ((RMIN + k * DR) * DN)
\* 45-degree sector of the angle atan2(y, x) in [0, 360): 0 = [0,45), 1 = [45,90), ...
Abs(a) == IF a < 0 THEN -a ELSE a
Octant(X, Y, Zc, DN) == LET x == X  y == Y IN
          IF y >= 0 /\ x > 0 THEN (IF y < x THEN 0 ELSE 1)
          ELSE IF x <= 0 /\ y > 0 THEN (IF -x < y THEN 2 ELSE 3)
          ELSE IF y <= 0 /\ x < 0 THEN (IF -y < -x THEN 4 ELSE 5)
          ELSE (IF x < -y THEN 6 ELSE 7)
\* 30-degree sector (0..11) of the same angle, by exact comparisons with tan 30 = 1/sqrt 3 and tan 60 = sqrt 3
Third(a, b) == IF 3 * b * b < a * a THEN 0 ELSE IF b * b < 3 * a * a THEN 1 ELSE 2      \* a > 0, b >= 0: sector of atan(b / a) in [0, 90)
Twelfth(X, Y, Zc, DN) == LET x == X  y == Y IN
          IF y >= 0 /\ x > 0 THEN Third(x, y)
          ELSE IF x <= 0 /\ y > 0 THEN 3 + Third(y, -x)
          ELSE IF y <= 0 /\ x < 0 THEN 6 + Third(-x, -y)
          ELSE 9 + Third(-y, x)
\* grids whose cell size is a multiple of 45 degrees use the octants, multiples of 30 degrees the twelfths
Use30 == DPHI % 45 # 0
PhiOnBorder(X, Y, Zc, DN) == LET x == X  y == Y IN x = 0 \/ y = 0 \/ (IF Use30 THEN 3 * y * y = x * x \/ y * y = 3 * x * x ELSE Abs(x) = Abs(y))
PhiDeg(X, Y, Zc, DN) == IF Use30 THEN Twelfth(X, Y, Zc, DN) * 30 ELSE Octant(X, Y, Zc, DN) * 45
IPhi(X, Y, Zc, DN) == (PhiDeg(X, Y, Zc, DN) % (NPHI * DPHI)) \div DPHI                   \* periodic: phi mod period, then the sector
CylCell(X, Y, Zc, DN) == <<IR(X, Y, Zc, DN), IPhi(X, Y, Zc, DN), FloorDiv(Zc, DN * DZc)>>
CylOnFace(X, Y, Zc, DN) == ROnFace(X, Y, Zc, DN) \/ PhiOnBorder(X, Y, Zc, DN) \/ Zc % (DN * DZc) = 0

CellAt(q0, q1, nn, ii) == LET X == CoordAt(q0, q1, nn, ii, 1)  Y == CoordAt(q0, q1, nn, ii, 2)  Zc == CoordAt(q0, q1, nn, ii, 3)  DN == DenOf(nn)
                          IN IF Kind = "cart" THEN CartCell(X, Y, Zc, DN) ELSE CylCell(X, Y, Zc, DN)
OnFaceAt(q0, q1, nn, ii) == LET X == CoordAt(q0, q1, nn, ii, 1)  Y == CoordAt(q0, q1, nn, ii, 2)  Zc == CoordAt(q0, q1, nn, ii, 3)  DN == DenOf(nn)
                            IN IF Kind = "cart" THEN CartOnFace(X, Y, Zc, DN) ELSE CylOnFace(X, Y, Zc, DN)
Cell == CellAt(p0, p1, n, i)
OnFace == OnFaceAt(p0, p1, n, i)
InGrid(c) == c \in Cells

\* ---- voxel maps: cell -> light source (-1: not mapped)
Lin(c) == (c[1] * Shape[2] + c[2]) * Shape[3] + c[3]
Masked(c) == (c[1] + c[2] + c[3]) % 3 = 0                                  \* cells switched off by the mask
\* with a mask the remaining cells are numbered consecutively in C order (np.arange over mask.sum())
MaskIndex(c) == Cardinality({d \in Cells : ~Masked(d) /\ Lin(d) < Lin(c)})
Source(c) == CASE MapKind = "identity" -> Lin(c)
               [] MapKind = "mask"     -> IF Masked(c) THEN -1 ELSE MaskIndex(c)
               [] MapKind = "merged"   -> IF c[3] = 1 /\ c[1] = 0 THEN -1 ELSE c[1] % 2       \* cells merged into two sources, some unmapped
NSources == IF MapKind = "identity" THEN Cardinality(Cells) ELSE IF MapKind = "mask" THEN Cardinality({c \in Cells : ~Masked(c)}) ELSE 2

\* the integrators do no bounds checking (the emitter must sit inside a bounding primitive): only segments whose
\* samples all fall into grid cells are behaviours of the system
Init == /\ p0 \in Pts /\ p1 \in Pts /\ p0 # p1
        /\ n \in Ns /\ i = 0 /\ amb = 0
        /\ \A j \in 0..(n - 1) : CellAt(p0, p1, n, j) \in {<<a, b, c>> : a \in 0..(Shape[1] - 1), b \in 0..(Shape[2] - 1), c \in 0..(Shape[3] - 1)}
        /\ count = [c \in Cells |-> 0]

\* one midpoint sample
March == /\ i < n
         /\ i' = i + 1
         /\ IF OnFace THEN amb' = amb + 1 /\ UNCHANGED count
            ELSE /\ amb' = amb
                 /\ count' = IF InGrid(Cell) THEN [count EXCEPT ![Cell] = @ + 1] ELSE count
         /\ UNCHANGED <<p0, p1, n>>
Next == March
Spec == Init /\ [][Next]_vars

\* ---- exact chord of the segment inside a Cartesian cell, as the length of a parameter interval (fraction of |P0P1|)
Size(k) == IF k = 1 THEN DX ELSE IF k = 2 THEN DY ELSE DZ
RMin2(a, b) == IF RLeq(a, b) THEN a ELSE b
RMax2(a, b) == IF RLeq(a, b) THEN b ELSE a
\* parameter interval [lo, hi] in which coordinate k lies inside cell index c[k]; <<1, 0>> marks "never"
AxisInterval(c, k) ==
    LET a == p0[k]  d == p1[k] - p0[k]  lo == c[k] * Size(k) * U  hi == (c[k] + 1) * Size(k) * U IN
    IF d = 0 THEN (IF lo <= a /\ a <= hi THEN <<R(0), R(1)>> ELSE <<R(1), R(0)>>)
    ELSE LET t1 == RNorm(lo - a, d)  t2 == RNorm(hi - a, d) IN <<RMin2(t1, t2), RMax2(t1, t2)>>
ChordFrac(c) ==
    LET I1 == AxisInterval(c, 1)  I2 == AxisInterval(c, 2)  I3 == AxisInterval(c, 3)
        lo == RMax2(R(0), RMax2(I1[1], RMax2(I2[1], I3[1])))
        hi == RMin2(R(1), RMin2(I1[2], RMin2(I2[2], I3[2])))
    IN IF RLeq(hi, lo) THEN R(0) ELSE RSub(hi, lo)
\* each cell's sample count differs from n * (chord fraction) by at most two (plus the samples that sat on a face)
ChordAccuracy == (Kind = "cart" /\ i = n) => \A c \in Cells :
                    LET diff == RAbs(RSub(R(count[c]), RMul(R(n), ChordFrac(c)))) IN RLeq(diff, R(2 + amb))

RECURSIVE SumOver(_, _)
SumOver(f, S) == IF S = {} THEN 0 ELSE LET c == CHOOSE x \in S : TRUE IN f[c] + SumOver(f, S \ {c})
PerSource == [s \in 0..(NSources - 1) |-> SumOver(count, {c \in Cells : Source(c) = s})]

\* every sample is accounted for exactly once
SamplesAccounted == SumOver(count, Cells) + amb <= i
\* with the identity map every source is one cell; a merged source collects exactly the samples of its cells
MergedIsSumOfCells == \A s \in 0..(NSources - 1) : PerSource[s] = SumOver(count, {c \in Cells : Source(c) = s})
\* unmapped cells contribute to no source
UnmappedContributeNothing == SumOver(PerSource, 0..(NSources - 1)) = SumOver(count, {c \in Cells : Source(c) # -1})

EmitFinal == (i = n) => PrintT(ToJson([kind |-> Kind, map |-> MapKind, p0 |-> p0, p1 |-> p1, U |-> U, n |-> n, amb |-> amb,
                                       per_source |-> PerSource, nsources |-> NSources,
                                       chord |-> IF Kind = "cart" /\ MapKind = "identity" THEN [s \in 0..(NSources - 1) |-> ChordFrac(CHOOSE c \in Cells : Lin(c) = s)] ELSE <<>>,
                                       voxel_map |-> [a \in 1..Shape[1] |-> [b \in 1..Shape[2] |-> [c \in 1..Shape[3] |-> Source(<<a - 1, b - 1, c - 1>>)]]]]))
=============================================================================
