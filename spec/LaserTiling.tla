---------------------------- MODULE LaserTiling ----------------------------
(***************************************************************************)
(* C18 - "the generated laser segments tile the laser length exactly once", *)
(* over a dense table of (length, radius) pairs                              *)
(* (cherab/core/model/laser/profile.pyx: generate_segmented_cylinder).       *)
(* A cylinder of length L and radius r is cut into n = floor(L / 2r) pieces  *)
(* of length L / n when n > 1, else it stays one piece.  The quotient is     *)
(* evaluated in floating point in the code and may come out one below the    *)
(* exact one (1.0 // 0.1 = 9.0); the statement only demands an exact tiling, *)
(* so n in {N - 1, N} (at least 1) is admissible, N the exact quotient.      *)
(* Lengths and radii are integers over the denominator D = 1000 (mm).        *)
(* One TLC state per pair.                                                   *)
(***************************************************************************)
EXTENDS Integers, Sequences, TLC, Json

CONSTANTS LMax,     \* lengths 50 mm, 100 mm, ... , 50 * LMax mm
          RMax      \* radii 5 mm, 10 mm, ... , 5 * RMax mm
D == 1000
VARIABLES L, r
vars == <<L, r>>
Init == L \in {50 * k : k \in 1..LMax} /\ r \in {5 * j : j \in 1..RMax}
Next == UNCHANGED vars
Spec == Init /\ [][Next]_vars

NExact == LET n == L \div (2 * r) IN IF n > 1 THEN n ELSE 1
Admissible == {n \in {NExact - 1, NExact} : n >= 1}
\* piece i of n, as numerators over the denominator n * D
Piece(n, i) == <<(i - 1) * L, i * L>>
\* the pieces start at 0, end at L, abut, have equal length, and each is at least one diameter long unless it is the only one
Tiles == \A n \in Admissible :
            /\ Piece(n, 1)[1] = 0 /\ Piece(n, n)[2] = n * L
            /\ \A i \in 1..(n - 1) : Piece(n, i)[2] = Piece(n, i + 1)[1]
            /\ \A i \in 1..n : Piece(n, i)[2] - Piece(n, i)[1] = L
            /\ (n > 1 => L >= n * 2 * r)
EmitCase == PrintT(ToJson([tiling |-> TRUE, L |-> <<L, D>>, r |-> <<r, D>>, nmax |-> NExact, admissible |-> Admissible]))
=============================================================================
